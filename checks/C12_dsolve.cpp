// C12 -- distributed solve is truthful and rank-consistent for any rank count / partition.
// Ranks are fibers under the in-process mini-MPI.  Two units share this source:
//   solve : run-time interface (coarsening x relaxation x solver x repartition) on SPD M-matrices
//   hier  : typed mpi::amg, hierarchy extracted by applying every level operator to unit vectors:
//           aggregation laws across rank boundaries, Galerkin products, direct coarse solve
#include <mpi.h>
#include <amgcl/backend/builtin.hpp>
#include <amgcl/adapter/crs_tuple.hpp>
#include <amgcl/mpi/util.hpp>
#include <amgcl/mpi/make_solver.hpp>
#include <amgcl/mpi/amg.hpp>
#include <amgcl/mpi/preconditioner.hpp>
#include <amgcl/mpi/solver/runtime.hpp>
#include <amgcl/mpi/coarsening/aggregation.hpp>
#include <amgcl/mpi/coarsening/smoothed_aggregation.hpp>
#include <amgcl/mpi/relaxation/spai0.hpp>
#include <amgcl/mpi/direct_solver/skyline_lu.hpp>
#include <amgcl/mpi/partition/merge.hpp>
#include <amgcl/mpi/subdomain_deflation.hpp>
#include <amgcl/preconditioner/runtime.hpp>
#include <amgcl/mpi/block_preconditioner.hpp>
#include <amgcl/relaxation/as_preconditioner.hpp>
#include <amgcl/relaxation/spai0.hpp>
#include <amgcl/amg.hpp>
#include <amgcl/coarsening/smoothed_aggregation.hpp>
#include <boost/property_tree/ptree.hpp>
#include <Eigen/Dense>
#include <iostream>
#include <cstring>
#include "vf.hpp"
#include "vsched.hpp"

using namespace amgcl;
typedef backend::builtin<double> B;

struct Sys { std::string name; int n; std::vector<ptrdiff_t> ptr, col; std::vector<double> val; double kappa = 0, normA = 0; };

static Sys finish(Sys s) {
    Eigen::MatrixXd M = Eigen::MatrixXd::Zero(s.n, s.n);
    for (int i = 0; i < s.n; ++i) for (ptrdiff_t j = s.ptr[i]; j < s.ptr[i+1]; ++j) M(i, s.col[j]) = s.val[j];
    Eigen::JacobiSVD<Eigen::MatrixXd> svd(M);
    s.normA = svd.singularValues()(0); s.kappa = s.normA / svd.singularValues()(s.n - 1);
    return s;
}
static Sys grid(int nx, int ny, double contrast) {
    Sys s; s.n = nx * ny; s.name = vf::KS() << "grid" << nx << "x" << ny << "_c" << contrast; s.ptr.push_back(0);
    auto k = [&](int i, int) { return ((i / 2) % 2) ? contrast : 1.0; };
    for (int j = 0; j < ny; ++j) for (int i = 0; i < nx; ++i) {
        std::vector<std::pair<int,double>> row; double d = 0;
        int di[4] = {0, -1, 1, 0}, dj[4] = {-1, 0, 0, 1};
        for (int q = 0; q < 4; ++q) {
            int ii = i + di[q], jj = j + dj[q];
            bool out = ii < 0 || ii >= nx || jj < 0 || jj >= ny;
            double w = out ? k(i, j) : 2.0 / (1.0 / k(i, j) + 1.0 / k(ii, jj));
            d += w; if (!out) row.push_back({jj * nx + ii, -w});
        }
        row.push_back({j * nx + i, d});
        std::sort(row.begin(), row.end());
        for (auto &e : row) { s.col.push_back(e.first); s.val.push_back(e.second); }
        s.ptr.push_back((ptrdiff_t)s.col.size());
    }
    return finish(s);
}
// anisotropic diffusion: coupling 1 in x, `weak` in y (lexicographic numbering, so every cut between grid rows severs weak
// couplings only); Dirichlet contribution on the boundary cells, interior rows have row sum exactly zero (dyadic values)
static Sys aniso(int nx, int ny, double weak) {
    Sys s; s.n = nx * ny; s.name = vf::KS() << "aniso" << nx << "x" << ny << "_w" << weak; s.ptr.push_back(0);
    for (int j = 0; j < ny; ++j) for (int i = 0; i < nx; ++i) {
        std::vector<std::pair<int,double>> row; double d = 0;
        int di[4] = {0, -1, 1, 0}, dj[4] = {-1, 0, 0, 1};
        for (int q = 0; q < 4; ++q) {
            int ii = i + di[q], jj = j + dj[q];
            double w = dj[q] ? weak : 1.0;
            d += w; if (!(ii < 0 || ii >= nx || jj < 0 || jj >= ny)) row.push_back({jj * nx + ii, -w});
        }
        row.push_back({j * nx + i, d});
        std::sort(row.begin(), row.end());
        for (auto &e : row) { s.col.push_back(e.first); s.val.push_back(e.second); }
        s.ptr.push_back((ptrdiff_t)s.col.size());
    }
    return finish(s);
}
static std::vector<Sys> systems() {
    std::vector<Sys> v;
    v.push_back(grid(8, 1, 1)); v.push_back(grid(4, 3, 10)); v.push_back(grid(5, 5, 1)); v.push_back(grid(6, 6, 10));
    if (vf::thorough()) { v.push_back(grid(7, 5, 100)); v.push_back(grid(12, 1, 10)); }
    return v;
}

typedef std::vector<int> Part;    // boundaries b[0]=0..b[k]=n
static std::string pshow(const Part &p) { vf::KS k; for (size_t i = 0; i < p.size(); ++i) k << (i ? "," : "") << p[i]; return k; }
static void compositions(int n, int k, std::vector<Part> &out) {
    if (k == 1) { out.push_back({0, n}); return; }
    Part cut(k + 1, 0); cut[k] = n;
    std::function<void(int)> rec = [&](int i) { if (i == k) { out.push_back(cut); return; } for (int c = cut[i-1]; c <= n; ++c) { cut[i] = c; rec(i + 1); } };
    rec(1);
}
// a handful of characteristic partitions of n rows into k parts (balanced, an empty rank first / middle / last, one tiny rank, very unbalanced)
static std::vector<Part> some_partitions(int n, int k) {
    std::vector<Part> out;
    if (k == 1) { out.push_back({0, n}); return out; }
    Part bal(k + 1); for (int i = 0; i <= k; ++i) bal[i] = (int)((long)n * i / k); out.push_back(bal);
    for (int e = 0; e < k; ++e) { Part p(k + 1); int c = 0, m = k - 1; for (int i = 0, q = 0; i < k; ++i) { p[i] = c; if (i != e) { ++q; c = (int)((long)n * q / m); } } p[k] = n; out.push_back(p); }
    { Part p(k + 1); p[0] = 0; for (int i = 1; i < k; ++i) p[i] = i; p[k] = n; out.push_back(p); }          // k-1 ranks with one row, the rest on the last
    { Part p(k + 1); p[0] = 0; for (int i = 1; i < k; ++i) p[i] = n - (k - i); p[k] = n; out.push_back(p); }  // mirror image
    std::sort(out.begin(), out.end()); out.erase(std::unique(out.begin(), out.end()), out.end());
    return out;
}

struct Env { int policy, send_mode, recv_mode; bool reverse; const char *name; };
static const Env ENVS[] = {{0,0,0,false,"fifo/eager"}, {1,1,1,true,"reverse/late"}, {2,1,0,false,"preempt-always/late-send"}};

static void set_env(const Env &e0, const std::vector<int> *prefix, bool explore_completion) {
    Env e = e0;
    if (const char *dbg = getenv("C12_DEBUG_ENV")) { int a, b, c, d; if (sscanf(dbg, "%d,%d,%d,%d", &a, &b, &c, &d) == 4) { e.policy = a; e.send_mode = b; e.recv_mode = c; e.reverse = d; } }
    vs::cfg().default_policy = e.policy; vs::cfg().max_threads = 1;
    vs::cfg().prefix = prefix ? *prefix : std::vector<int>();
    mm::cfg().send_mode = e.send_mode; mm::cfg().recv_mode = e.recv_mode; mm::cfg().reduce_reverse = e.reverse; mm::cfg().explore_completion = explore_completion;
    if (!prefix) vs::begin_execution();
}

// ======================================================================================================
// unit "solve"
struct SolveOut { std::vector<double> x; std::vector<size_t> it; std::vector<double> res; std::vector<std::string> exc; };

typedef mpi::make_solver< runtime::mpi::preconditioner<B>, runtime::mpi::solver::wrapper<B> > RSolver;

static void solve_rank(int r, const Sys &s, const Part &p, const boost::property_tree::ptree &prm, const std::vector<double> &f, SolveOut &o) {
    try {
        mpi::communicator comm(MPI_COMM_WORLD);
        int rb = p[r], re = p[r + 1], nl = re - rb;
        std::vector<ptrdiff_t> ptr(1, 0), col; std::vector<double> val;
        for (int i = rb; i < re; ++i) { for (ptrdiff_t j = s.ptr[i]; j < s.ptr[i+1]; ++j) { col.push_back(s.col[j]); val.push_back(s.val[j]); } ptr.push_back((ptrdiff_t)col.size()); }
        RSolver S(comm, std::make_tuple((size_t)nl, ptr, col, val), prm);
        backend::numa_vector<double> fl(nl), xl(nl);
        for (int i = 0; i < nl; ++i) { fl[i] = f[rb + i]; xl[i] = 0; }
        size_t it; double res;
        std::tie(it, res) = S(fl, xl);
        o.it[r] = it; o.res[r] = res;
        for (int i = 0; i < nl; ++i) o.x[rb + i] = xl[i];
    } catch (const vs::Deadlock &) { throw; }
    catch (const std::exception &e) { o.exc[r] = e.what(); }
}

static std::string solve_once(const Sys &s, const Part &p, const boost::property_tree::ptree &prm, const Env &e, bool expect_converge, int maxit,
                              const std::vector<int> *prefix = nullptr, bool explore = false, SolveOut *keep = nullptr) {
    int k = (int)p.size() - 1;
    std::vector<double> f(s.n); for (int i = 0; i < s.n; ++i) f[i] = 1.0 + 0.25 * (i % 5);
    SolveOut o; o.x.assign(s.n, 0); o.it.assign(k, 0); o.res.assign(k, 0); o.exc.assign(k, "");
    set_env(e, prefix, explore);
    try { mm::run(k, [&](int r) { solve_rank(r, s, p, prm, f, o); }); }
    catch (const vs::Deadlock &d) { return std::string("DEADLOCK: ") + d.what() + mm::where_all(); }
    catch (const vs::StepCap &d) { return std::string("STEP-CAP (possible livelock): ") + d.what(); }
    catch (const std::exception &x) { return std::string("exception escaped: ") + x.what(); }
    if (keep) *keep = o;
    for (int r = 0; r < k; ++r) if (!o.exc[r].empty()) return vf::KS() << "exception on rank " << r << ": " << o.exc[r];
    for (int r = 1; r < k; ++r) if (o.it[r] != o.it[0] || std::memcmp(&o.res[r], &o.res[0], 8) != 0)
        return vf::KS() << "rank " << r << " reports (" << o.it[r] << "," << o.res[r] << ") but rank 0 reports (" << o.it[0] << "," << o.res[0] << ")";
    long double tr = 0, nf = 0, nx = 0;
    for (int i = 0; i < s.n; ++i) { long double a = f[i]; for (ptrdiff_t j = s.ptr[i]; j < s.ptr[i+1]; ++j) a -= (long double)s.val[j] * o.x[s.col[j]]; tr += a * a; nf += (long double)f[i] * f[i]; nx += (long double)o.x[i] * o.x[i]; }
    double trel = (double)std::sqrt(tr / nf);
    // recursive residual vs true residual: C01 bound 32 u (iters+2) sqrt(n) kappa (1 + ||A|| ||x|| / ||f||)
    double bound = 32 * 1.1102230246251565e-16 * (o.it[0] + 2) * std::sqrt((double)s.n) * s.kappa * (1 + s.normA * (double)std::sqrt(nx / nf));
    if (!(std::abs(o.res[0] - trel) <= bound + 1e-12 * o.res[0])) return vf::KS() << "reported residual " << o.res[0] << " but assembled solution has true relative residual " << trel << " (bound " << bound << ", iters " << o.it[0] << ")";
    if ((int)o.it[0] > maxit + 3) return vf::KS() << "iteration count " << o.it[0] << " exceeds maxiter " << maxit << " (+L-1)";
    if (expect_converge && !(o.res[0] < 1e-8)) return vf::KS() << "did not converge on an SPD M-matrix: iters " << o.it[0] << " residual " << o.res[0];
    return "";
}

static void run_solve() {
    const char *coars[] = {"aggregation", "smoothed_aggregation"};
    const char *relax[] = {"spai0", "damped_jacobi", "gauss_seidel", "ilu0", "iluk", "ilup", "ilut", "spai1", "chebyshev"};
    const char *solv[]  = {"cg", "bicgstab", "bicgstabl", "gmres", "lgmres", "fgmres", "idrs", "richardson"};
    auto sys = systems();
    long long cidx = 0;
    for (auto &s : sys) for (int k = 1; k <= (vf::quick() ? 3 : 4); ++k) {
        std::vector<Part> parts;
        if (s.n <= 8 && k <= 3) compositions(s.n, k, parts); else parts = some_partitions(s.n, k);
        for (auto &p : parts) for (auto c : coars) for (auto r : relax) for (auto sv : solv) for (int repart = 0; repart < 2; ++repart) {
            // thinning for the quick tier: the full relaxation x solver product only on the balanced partition
            ++cidx;
            bool first_part = (&p == &parts[0]);
            if (vf::quick() && !first_part && !((std::string(r) == "spai0" && std::string(sv) == "cg") || (std::string(r) == "gauss_seidel" && std::string(sv) == "bicgstab") || (std::string(r) == "ilu0" && std::string(sv) == "gmres"))) continue;
            if (vf::quick() && first_part && repart && std::string(sv) != "cg") continue;
            if (repart && k == 1) continue;
            std::string key = vf::KS() << "sv|" << s.name << "|" << k << "|" << pshow(p) << "|" << c << "|" << r << "|" << sv << "|" << repart;
            if (!vf::take([&]{ return key; })) continue;
            boost::property_tree::ptree prm;
            prm.put("precond.class", "amg"); prm.put("precond.coarsening.type", c); prm.put("precond.relax.type", r);
            prm.put("precond.coarse_enough", std::max(2, s.n / 6));
            if (repart) { prm.put("precond.repart.enable", true); prm.put("precond.repart.min_per_proc", 4); prm.put("precond.repart.shrink_ratio", 2); }
            // the stationary Richardson iteration converges at the rate of the cycle's contraction factor (C01): it is given a larger budget
            const int maxit = std::string(sv) == "richardson" ? 1000 : 100;
            prm.put("solver.type", sv); prm.put("solver.tol", 1e-8); prm.put("solver.maxiter", maxit);
            bool expect = std::string(sv) != "richardson" || true;
            // CG needs a symmetric preconditioner: spai1 / ilut smoothing is not symmetric -> convergence not demanded there (C01 finding F27)
            if (std::string(sv) == "cg" && (std::string(r) == "spai1" || std::string(r) == "ilut")) expect = false;
            bool bad = false;
            for (auto &e : ENVS) {
                std::string v = solve_once(s, p, prm, e, expect, maxit);
                vf::count("executions"); vf::S().transitions += 1;
                if (!v.empty()) { vf::fail(v.compare(0, 8, "DEADLOCK") == 0 ? "dsolve.deadlock" : "dsolve.fixed_schedules", key, vf::KS() << "schedule " << e.name << ": " << v); bad = true; break; }
                if (&e == &ENVS[0] && k == 1) break;     // a single rank has one schedule
            }
            vf::S().states += 1;
            if (!bad && k > 1) vf::nontrivial(vf::hstr(key));
            if (mm::stats().late_changed_buffer) vf::count("late_completion_changed_a_buffer");
        }
        vf::space(vf::KS() << "distributed solves: " << s.name << " x " << k << " ranks x " << ((s.n <= 8 && k <= 3) ? "all contiguous partitions" : "characteristic partitions (balanced, each rank empty in turn, single-row ranks)")
                           << " x {aggregation, smoothed_aggregation} x 9 relaxations x 8 solvers x repartition {off, merge}");
    }
    // delay-bounded exploration of rank interleavings / completion modes on the smallest system
    {
        const Sys &s = sys[0];
        for (int k = 2; k <= 3; ++k) {
            std::vector<Part> parts = some_partitions(s.n, k);
            for (size_t pi = 0; pi < parts.size() && pi < (vf::quick() ? 2u : 6u); ++pi) for (auto c : coars) {
                std::string key = vf::KS() << "svx|" << s.name << "|" << k << "|" << pshow(parts[pi]) << "|" << c;
                if (!vf::take([&]{ return key; })) continue;
                boost::property_tree::ptree prm;
                prm.put("precond.class", "amg"); prm.put("precond.coarsening.type", c); prm.put("precond.relax.type", "spai0"); prm.put("precond.coarse_enough", 2);
                prm.put("solver.type", "cg"); prm.put("solver.tol", 1e-8); prm.put("solver.maxiter", 100);
                std::string bad; std::vector<int> badc;
                auto st = vs::explore([&]() -> uint64_t {
                    std::vector<int> pf = vs::cfg().prefix;
                    std::string v = solve_once(s, parts[pi], prm, ENVS[0], true, 100, &pf, true);
                    if (!v.empty() && bad.empty()) bad = v;
                    return vf::hstr(v);
                }, 1, 60000, [&](const std::vector<int> &ch, uint64_t) { if (!bad.empty() && badc.empty()) badc = ch; }, true);
                vf::S().states += st.states; vf::S().transitions += st.transitions + st.executions; vf::count("executions", st.executions); vf::count("explored_cases");
                vf::nontrivial(vf::hstr(key));
                if (st.capped) vf::cap("delay-bounded DFS hit the execution cap (60000) on a solve scenario");
                if (!bad.empty()) {
                    int same = 0; for (int q = 0; q < 2; ++q) { vs::begin_execution(); if (solve_once(s, parts[pi], prm, ENVS[0], true, 100, &badc, true) == bad) ++same; }
                    vf::S().traces_validated += same;
                    vf::KS ks; for (size_t i = 0; i < badc.size(); ++i) ks << (i ? "," : "") << badc[i];
                    vf::fail("dsolve.explored_schedule", key, vf::KS() << bad << " under choice list [" << ks.str() << "] (replayed " << same << "/2)");
                }
            }
        }
        vf::space("delay-bounded (1 departure from the default schedule: next rank or completion mode) exploration of complete distributed AMG+CG solves on the 8-unknown system, 2-3 ranks");
    }
}

// ======================================================================================================
// unit "hier": hierarchy extraction through the public level operators
template <class Coarsening>
struct HierOut { std::vector<Eigen::MatrixXd> A, P, R; Eigen::MatrixXd coarse_inv; bool has_direct = false; std::vector<std::string> exc; int nlev = 0; };

template <class DM>
static void extract(const DM &M, int rank, Eigen::MatrixXd &out) {
    // column j of the global operator = M * e_j, one distributed spmv per column
    ptrdiff_t gr = M.glob_rows(), gc = M.glob_cols(), lr = M.loc_rows(), lc = M.loc_cols();
    mpi::communicator comm = M.comm();
    std::vector<ptrdiff_t> rdom = comm.exclusive_sum(lr), cdom = comm.exclusive_sum(lc);
    if (rank == 0) out = Eigen::MatrixXd::Zero(gr, gc);
    MPI_Barrier(comm);
    backend::numa_vector<double> x(lc), y(lr);
    for (ptrdiff_t j = 0; j < gc; ++j) {
        for (ptrdiff_t i = 0; i < lc; ++i) x[i] = (cdom[comm.rank] + i == j) ? 1.0 : 0.0;
        backend::spmv(1.0, M, x, 0.0, y);
        for (ptrdiff_t i = 0; i < lr; ++i) out(rdom[comm.rank] + i, j) = y[i];
    }
    MPI_Barrier(comm);
}

template <class Coarsening>
static std::string hier_once(const Sys &s, const Part &p, bool repart, const Env &e, int coarse_enough, int nullcols = 0, double eps_strong = 0, bool rebuild = false) {
    // rebuild mode: hierarchy built for A (allow_rebuild), then rebuild(A2) with the same pattern and other values; everything below
    // is judged against A2 (transfer operators are reused, every coarse matrix must be R A2 P again)
    std::vector<double> val2 = s.val;
    if (rebuild) for (int i = 0; i < s.n; ++i) for (ptrdiff_t j = s.ptr[i]; j < s.ptr[i+1]; ++j) val2[j] = s.val[j] * (s.col[j] == i ? 1.5 : (((i + s.col[j]) & 1) ? 0.75 : 1.0));
    typedef mpi::amg<B, Coarsening, mpi::relaxation::spai0<B>, mpi::direct::skyline_lu<double>, mpi::partition::merge<B>> AMG;
    int k = (int)p.size() - 1;
    HierOut<Coarsening> o; o.exc.assign(k, "");
    std::vector<Eigen::VectorXd> dsol;    // direct solves of unit-ish right-hand sides
    Eigen::MatrixXd dS;
    set_env(e, nullptr, false);
    try {
        mm::run(k, [&](int r) {
            try {
                mpi::communicator comm(MPI_COMM_WORLD);
                int rb = p[r], re = p[r + 1], nl = re - rb;
                std::vector<ptrdiff_t> ptr(1, 0), col; std::vector<double> val;
                for (int i = rb; i < re; ++i) { for (ptrdiff_t j = s.ptr[i]; j < s.ptr[i+1]; ++j) { col.push_back(s.col[j]); val.push_back(s.val[j]); } ptr.push_back((ptrdiff_t)col.size()); }
                typename AMG::params prm;
                prm.coarse_enough = coarse_enough;
                prm.coarsening.aggr.eps_strong = eps_strong;   // 0: every stored connection is strong, the partition laws become checkable from P alone
                if (nullcols) {
                    // near-null space B = [1, i, i^2 ...] in the global row index (row-major local slice)
                    prm.coarsening.aggr.nullspace.cols = nullcols;
                    prm.coarsening.aggr.nullspace.B.resize((size_t)nl * nullcols);
                    for (int i = 0; i < nl; ++i) for (int c = 0; c < nullcols; ++c) prm.coarsening.aggr.nullspace.B[(size_t)i * nullcols + c] = std::pow((double)(rb + i) / s.n, c);
                    prm.max_levels = 2;
                }
                if (repart) { prm.repart.enable = true; prm.repart.min_per_proc = 4; prm.repart.shrink_ratio = 2; }
                if (rebuild) prm.allow_rebuild = true;
                AMG amg(comm, std::make_tuple((size_t)nl, ptr, col, val), prm);
                if (rebuild) {
                    std::vector<double> v2; for (int i = rb; i < re; ++i) for (ptrdiff_t j = s.ptr[i]; j < s.ptr[i+1]; ++j) v2.push_back(val2[j]);
                    amg.rebuild(std::make_tuple((size_t)nl, ptr, col, v2));
                }
                if (r == 0) { o.nlev = (int)amg.levels.size(); o.A.resize(o.nlev); o.P.resize(o.nlev); o.R.resize(o.nlev); }
                MPI_Barrier(comm);
                int li = 0;
                for (auto &lvl : amg.levels) {
                    if (lvl.A) extract(*lvl.A, r, o.A[li]);
                    if (lvl.P) extract(*lvl.P, r, o.P[li]);
                    if (lvl.R) extract(*lvl.R, r, o.R[li]);
                    if (lvl.solve) {
                        // S^-1 column by column through the distributed direct solver
                        ptrdiff_t lr = lvl.f->size();
                        std::vector<ptrdiff_t> dom = comm.exclusive_sum(lr);
                        ptrdiff_t g = dom.back();
                        if (r == 0) { dS = Eigen::MatrixXd::Zero(g, g); o.has_direct = true; }
                        MPI_Barrier(comm);
                        backend::numa_vector<double> rhs(lr), x(lr);
                        for (ptrdiff_t j = 0; j < g; ++j) {
                            for (ptrdiff_t i = 0; i < lr; ++i) { rhs[i] = (dom[r] + i == j) ? 1.0 : 0.0; x[i] = 0; }
                            (*lvl.solve)(rhs, x);
                            for (ptrdiff_t i = 0; i < lr; ++i) dS(dom[r] + i, j) = x[i];
                        }
                        MPI_Barrier(comm);
                    }
                    ++li;
                }
            } catch (const vs::Deadlock &) { throw; }
            catch (const std::exception &x) { o.exc[r] = x.what(); }
        });
    } catch (const vs::Deadlock &d) { return std::string("DEADLOCK: ") + d.what() + mm::where_all(); }
    catch (const std::exception &x) { return std::string("exception escaped: ") + x.what(); }
    for (int r = 0; r < k; ++r) if (!o.exc[r].empty()) return vf::KS() << "exception on rank " << r << ": " << o.exc[r];
    // ---- judge ----
    const double u = 1.1102230246251565e-16;
    Eigen::MatrixXd A0 = Eigen::MatrixXd::Zero(s.n, s.n);
    for (int i = 0; i < s.n; ++i) for (ptrdiff_t j = s.ptr[i]; j < s.ptr[i+1]; ++j) A0(i, s.col[j]) = val2[j];
    if (o.nlev == 0) return "no levels";
    if (o.A[0].rows() == s.n && (o.A[0] - A0).cwiseAbs().maxCoeff() != 0) return "finest level operator differs from the input matrix";
    Eigen::MatrixXd Aprev = A0;
    constexpr bool plain = std::is_same<Coarsening, mpi::coarsening::aggregation<B>>::value;
    for (int l = 0; l + 1 < o.nlev || (l < o.nlev && o.P[l].size() > 0); ++l) {
        if (o.P[l].size() == 0) break;
        const Eigen::MatrixXd &P = o.P[l], &R = o.R[l];
        if (P.rows() != Aprev.rows()) return vf::KS() << "level " << l << ": P has " << P.rows() << " rows, A has " << Aprev.rows();
        if (!nullcols && !(P.cols() < P.rows())) return vf::KS() << "level " << l << ": coarse size " << P.cols() << " not smaller than fine size " << P.rows();
        if ((R - P.transpose()).cwiseAbs().maxCoeff() != 0) return vf::KS() << "level " << l << ": R is not the transpose of P";
        if (nullcols && l == 0 && plain) {
            // near-null space reproduced across rank boundaries: every column of B lies in the range of P on the aggregated rows
            Eigen::MatrixXd Bm(P.rows(), nullcols);
            for (int i = 0; i < P.rows(); ++i) for (int c = 0; c < nullcols; ++c) Bm(i, c) = std::pow((double)i / s.n, c);
            Eigen::MatrixXd Y = P.colPivHouseholderQr().solve(Bm);
            Eigen::MatrixXd Rs = P * Y - Bm;
            for (int i = 0; i < P.rows(); ++i) {
                bool agg = P.row(i).cwiseAbs().maxCoeff() != 0;
                if (agg && Rs.row(i).cwiseAbs().maxCoeff() > 1e-10) return vf::KS() << "level 0: near-null-space vector not reproduced on row " << i << " (distance " << Rs.row(i).cwiseAbs().maxCoeff() << " from the range of P_tent)";
                bool has_nbr = false; for (int j = 0; j < Aprev.cols(); ++j) if (j != i && Aprev(i, j) != 0) has_nbr = true;
                if (has_nbr && !agg) return vf::KS() << "level 0: unknown " << i << " has a strong neighbour but belongs to no aggregate";
            }
            // columns belonging to different aggregates have disjoint support: P^T P is block diagonal with blocks of size nullcols
            Eigen::MatrixXd G2 = P.transpose() * P;
            for (int a = 0; a < G2.rows(); ++a) for (int b = 0; b < G2.cols(); ++b) if (a / nullcols != b / nullcols && std::abs(G2(a, b)) > 1e-12) return vf::KS() << "level 0: tentative columns " << a << " and " << b << " of different aggregates overlap";
            vf::count("nullspace_levels_checked");
        }
        if (!plain && !nullcols && eps_strong > 0) {
            // smoothed aggregation with weak connections: P = (I - w Df^-1 Af) P_tent and the weak entries of a row are lumped into
            // Df wherever they live (local or remote block), so Af keeps the row sums of A and the constant vector is reproduced on
            // every zero-row-sum row that is interpolated at all
            for (int i = 0; i < P.rows(); ++i) {
                double rs = 0, mag = 0; for (int j = 0; j < Aprev.cols(); ++j) { rs += Aprev(i, j); mag += std::abs(Aprev(i, j)); }
                double ps = 0, pm = 0; for (int j = 0; j < P.cols(); ++j) { ps += P(i, j); pm += std::abs(P(i, j)); }
                if (l == 0 && rs == 0 && pm != 0) {
                    if (std::abs(ps - 1) > 64 * (P.cols() + 8) * u * std::max(1.0, pm)) return vf::KS() << "level 0: row " << i << " of A has zero row sum but row " << i << " of P sums to " << ps << " (constant vector not reproduced; weak connections of that row: " << [&]{ int w = 0; for (int j = 0; j < Aprev.cols(); ++j) if (j != i && Aprev(i, j) != 0 && Aprev(i, j) * Aprev(i, j) <= eps_strong * eps_strong * Aprev(i, i) * Aprev(j, j)) ++w; return w; }() << ")";
                    vf::count("sa_zero_rowsum_rows_checked_distributed");
                }
            }
        }
        if (plain && !nullcols && eps_strong == 0) {
            // aggregation laws across rank boundaries (eps_strong = 0: every off-diagonal entry is a strong connection)
            for (int i = 0; i < P.rows(); ++i) {
                int cnt = 0; double sum = 0; for (int j = 0; j < P.cols(); ++j) if (P(i, j) != 0) { ++cnt; sum += P(i, j); }
                bool has_nbr = false; for (int j = 0; j < Aprev.cols(); ++j) if (j != i && Aprev(i, j) != 0) has_nbr = true;
                if (cnt > 1) return vf::KS() << "level " << l << ": unknown " << i << " belongs to " << cnt << " aggregates";
                if (has_nbr && cnt == 0) return vf::KS() << "level " << l << ": unknown " << i << " has a strong neighbour but belongs to no aggregate";
                if (cnt == 1 && sum != 1.0) return vf::KS() << "level " << l << ": constant vector not reproduced on row " << i << " (P entry " << sum << ")";
            }
            for (int j = 0; j < P.cols(); ++j) { bool any = false; for (int i = 0; i < P.rows(); ++i) any |= P(i, j) != 0; if (!any) return vf::KS() << "level " << l << ": aggregate " << j << " is empty"; }
            vf::count("aggregation_levels_checked");
        }
        Eigen::MatrixXd G = R * Aprev * P;
        if (plain && !nullcols) G *= (double)(1 / 1.5f); else if (plain) G *= (double)(1 / 1.5f);       // scaled_galerkin(A, P, R, 1 / prm.over_interp) with float over_interp = 1.5f
        // next level operator: from the next level's A (relaxation level) or, for the direct level, from the inverse
        Eigen::MatrixXd absG = R.cwiseAbs() * Aprev.cwiseAbs() * P.cwiseAbs();
        double tol = 8 * (Aprev.rows() + 4) * u * absG.maxCoeff();
        if (l + 1 < o.nlev && o.A[l + 1].size() > 0) {
            if (o.A[l + 1].rows() != G.rows()) return vf::KS() << "level " << l + 1 << ": size " << o.A[l + 1].rows() << " but R*A*P has " << G.rows();
            double d = (o.A[l + 1] - G).cwiseAbs().maxCoeff();
            if (d > tol) return vf::KS() << "level " << l + 1 << ": coarse matrix differs from R*A*P" << (plain ? "/over_interp" : "") << " by " << d << " (bound " << tol << ")";
            vf::count("galerkin_levels_checked");
            Aprev = o.A[l + 1];
        } else if (o.has_direct && l + 2 == o.nlev) {
            if (dS.rows() != G.rows()) return vf::KS() << "direct level: size " << dS.rows() << " but R*A*P has " << G.rows();
            Eigen::MatrixXd I = G * dS;
            double d = (I - Eigen::MatrixXd::Identity(G.rows(), G.rows())).cwiseAbs().maxCoeff();
            Eigen::JacobiSVD<Eigen::MatrixXd> svd(G);
            double kap = svd.singularValues()(0) / svd.singularValues()(G.rows() - 1);
            if (!(d <= 64 * G.rows() * u * kap)) return vf::KS() << "direct coarse solver: ||A_c * solve(e_j) - e_j||_max = " << d << " (kappa " << kap << ")";
            vf::count("direct_coarse_solves_checked");
            Aprev = G;
        } else break;
    }
    if (o.nlev >= 2) vf::count("hierarchies_with_2plus_levels");
    return "";
}

// weak connections across rank boundaries (default eps_strong): anisotropic grids, every contiguous partition into 2 parts and
// characteristic partitions into 3
template <class Coarsening>
static void run_hier_weak(const char *cname) {
    std::vector<Sys> sys = { aniso(4, 4, 0.0078125), aniso(5, 3, 0.0078125) };
    if (vf::thorough()) { sys.push_back(aniso(6, 5, 0.0078125)); sys.push_back(aniso(4, 6, 0.03125)); }
    for (auto &s : sys) for (int k = 1; k <= 3; ++k) {
        std::vector<Part> parts;
        if (k <= 2) compositions(s.n, k, parts); else parts = some_partitions(s.n, k);
        for (auto &p : parts) {
            std::string key = vf::KS() << "hw|" << cname << "|" << s.name << "|" << k << "|" << pshow(p);
            if (!vf::take([&]{ return key; })) continue;
            for (auto &e : ENVS) {
                std::string v = hier_once<Coarsening>(s, p, false, e, 2, 0, 0.08);
                vf::count("executions"); vf::S().transitions += 1;
                if (!v.empty()) { vf::fail(std::string("dhier.weak_connections.") + cname, key, vf::KS() << "eps_strong=0.08 schedule " << e.name << ": " << v); break; }
                if (k == 1) break;
            }
            vf::S().states += 1;
            if (k > 1) vf::nontrivial(vf::hstr(key));
        }
        vf::space(vf::KS() << "hierarchy extraction with weak connections (eps_strong 0.08): " << cname << " x " << s.name << " x " << k << " ranks x partitions");
    }
}

// run-time configuration of the distributed AMG: parameters read from a property tree are the parameters (import then export is
// the identity, boundary values included), and a hierarchy configured through the tree acts like the one configured through
// the params struct
template <class Coarsening>
static void run_hier_params(const char *cname) {
    typedef mpi::amg<B, Coarsening, mpi::relaxation::spai0<B>, mpi::direct::skyline_lu<double>, mpi::partition::merge<B>> AMG;
    struct Fld { const char *name; std::vector<int> vals; };
    const std::vector<Fld> flds = {{"coarse_enough", {0, 1, 7}}, {"max_levels", {1, 2, 5}}, {"npre", {0, 1, 3}}, {"npost", {0, 1, 3}}, {"ncycle", {1, 2}}, {"pre_cycles", {0, 1, 2}}, {"direct_coarse", {0, 1}}, {"allow_rebuild", {0, 1}}};
    for (auto &fl : flds) for (int v : fl.vals) {
        std::string key = vf::KS() << "hp|" << cname << "|" << fl.name << "|" << v;
        if (!vf::take([&]{ return key; })) continue;
        vf::nontrivial(vf::hstr(key));
        boost::property_tree::ptree in; in.put(fl.name, v);
        std::string got;
        try { typename AMG::params prm(in); boost::property_tree::ptree out; prm.get(out, ""); got = out.get<std::string>(fl.name, "<missing>"); }
        catch (const std::exception &e) { got = std::string("exception: ") + e.what(); }
        vf::count("params_roundtrips");
        std::string want = (std::string(fl.name) == "direct_coarse" || std::string(fl.name) == "allow_rebuild") ? (v ? "true" : "false") : std::to_string(v);
        if (got != want && !(want == "true" && got == "1") && !(want == "false" && got == "0")) vf::fail(std::string("dparams.roundtrip.") + cname, key, vf::KS() << fl.name << " = " << v << " read from a property tree is exported as " << got);
    }
    // pre_cycles / npre / npost through the tree vs through the struct: same action of the preconditioner (2 ranks)
    Sys s = grid(5, 5, 1);
    for (int pc : {0, 1, 2}) for (int np : {0, 1}) {
        std::string key = vf::KS() << "hp|" << cname << "|apply|pc" << pc << "|npre" << np;
        if (!vf::take([&]{ return key; })) continue;
        vf::nontrivial(vf::hstr(key));
        Part p = {0, 12, 25};
        std::vector<double> ytree(s.n, 0), ystruct(s.n, 0); std::string exc;
        set_env(ENVS[0], nullptr, false);
        try {
            mm::run(2, [&](int r) {
                mpi::communicator comm(MPI_COMM_WORLD);
                int rb = p[r], re = p[r + 1], nl = re - rb;
                std::vector<ptrdiff_t> ptr(1, 0), col; std::vector<double> val;
                for (int i = rb; i < re; ++i) { for (ptrdiff_t j = s.ptr[i]; j < s.ptr[i+1]; ++j) { col.push_back(s.col[j]); val.push_back(s.val[j]); } ptr.push_back((ptrdiff_t)col.size()); }
                boost::property_tree::ptree t; t.put("coarse_enough", 3); t.put("pre_cycles", pc); t.put("npre", np);
                typename AMG::params ps; ps.coarse_enough = 3; ps.pre_cycles = pc; ps.npre = np;
                AMG at(comm, std::make_tuple((size_t)nl, ptr, col, val), typename AMG::params(t)), as(comm, std::make_tuple((size_t)nl, ptr, col, val), ps);
                backend::numa_vector<double> f(nl), x1(nl), x2(nl); for (int i = 0; i < nl; ++i) { f[i] = 1 + (rb + i) % 4; x1[i] = x2[i] = 0; }
                at.apply(f, x1); as.apply(f, x2);
                for (int i = 0; i < nl; ++i) { ytree[rb + i] = x1[i]; ystruct[rb + i] = x2[i]; }
            });
        } catch (const std::exception &e) { exc = e.what(); }
        vf::count("executions"); vf::S().transitions += 1; vf::S().states += 1;
        if (!exc.empty()) { vf::fail(std::string("dparams.apply.") + cname, key, "exception: " + exc); continue; }
        if (std::memcmp(ytree.data(), ystruct.data(), s.n * sizeof(double)) != 0) { double w = 0; for (int i = 0; i < s.n; ++i) w = std::max(w, std::abs(ytree[i] - ystruct[i])); vf::fail(std::string("dparams.apply.") + cname, key, vf::KS() << "pre_cycles=" << pc << " npre=" << np << ": hierarchy configured through the property tree acts differently from the one configured through the struct (max diff " << w << ")"); }
    }
    vf::space(vf::KS() << "mpi::amg parameters, " << cname << ": 8 fields x boundary values, import/export identity; tree- vs struct-configured hierarchy for pre_cycles {0,1,2} x npre {0,1}");
}

template <class Coarsening>
static void run_hier_t(const char *cname) {
    auto sys = systems();
    for (auto &s : sys) for (int k = 1; k <= (vf::quick() ? 3 : 4); ++k) {
        std::vector<Part> parts;
        if (s.n <= 8 && k <= 3) compositions(s.n, k, parts); else if (s.n <= 12 && k <= 2) compositions(s.n, k, parts); else parts = some_partitions(s.n, k);
        for (auto &p : parts) for (int repart = 0; repart < 2; ++repart) for (int ce : {2, std::max(3, s.n / 4)}) {
            if (repart && k == 1) continue;
            std::string key = vf::KS() << "h|" << cname << "|" << s.name << "|" << k << "|" << pshow(p) << "|" << repart << "|" << ce;
            if (!vf::take([&]{ return key; })) continue;
            for (auto &e : ENVS) {
                std::string v = hier_once<Coarsening>(s, p, repart, e, ce);
                vf::count("executions"); vf::S().transitions += 1;
                if (!v.empty()) { vf::fail(std::string("dhier.") + cname, key, vf::KS() << "schedule " << e.name << ": " << v); break; }
                // near-null space with 2 and 3 vectors (block_size 1): tentative prolongation across rank boundaries
                if (ce == 2 && !repart && s.n >= 25) for (int nc : {2, 3}) {
                    v = hier_once<Coarsening>(s, p, repart, e, ce, nc);
                    vf::count("executions"); vf::S().transitions += 1;
                    if (!v.empty()) { vf::fail(std::string("dhier.nullspace.") + cname, key, vf::KS() << "nullspace cols=" << nc << " schedule " << e.name << ": " << v); break; }
                }
                // rebuild(A2) of a hierarchy built with allow_rebuild
                if (!repart) {
                    v = hier_once<Coarsening>(s, p, repart, e, ce, 0, 0, true);
                    vf::count("executions"); vf::count("rebuild_executions"); vf::S().transitions += 1;
                    if (!v.empty()) { vf::fail(std::string("dhier.rebuild.") + cname, key, vf::KS() << "after rebuild(A2), schedule " << e.name << ": " << v); break; }
                }
                if (k == 1) break;
            }
            vf::S().states += 1;
            if (k > 1) vf::nontrivial(vf::hstr(key));
        }
        vf::space(vf::KS() << "hierarchy extraction (also after rebuild with a second matrix): " << cname << " x " << s.name << " x " << k << " ranks x partitions x repartition {off, merge} x coarse_enough {2, n/4}");
    }
}


// ======================================================================================================
// unit "sdd": subdomain deflation and block preconditioner (the remaining distributed solver kinds)
typedef mpi::subdomain_deflation< runtime::preconditioner<B>, runtime::mpi::solver::wrapper<B>, mpi::direct::skyline_lu<double> > SDD;
typedef mpi::make_solver< mpi::block_preconditioner< amgcl::amg<B, coarsening::smoothed_aggregation, relaxation::spai0> >, runtime::mpi::solver::wrapper<B> > BPSolver;

static std::string sdd_once(const Sys &s, const Part &p, int ndv, const char *solver, const char *lrelax, int kind, const Env &e) {
    int k = (int)p.size() - 1;
    std::vector<double> f(s.n); for (int i = 0; i < s.n; ++i) f[i] = 1.0 + 0.25 * (i % 5);
    SolveOut o; o.x.assign(s.n, 0); o.it.assign(k, 0); o.res.assign(k, 0); o.exc.assign(k, "");
    set_env(e, nullptr, false);
    try {
        mm::run(k, [&](int r) {
            try {
                mpi::communicator comm(MPI_COMM_WORLD);
                int rb = p[r], re = p[r + 1], nl = re - rb;
                std::vector<ptrdiff_t> ptr(1, 0), col; std::vector<double> val;
                for (int i = rb; i < re; ++i) { for (ptrdiff_t j = s.ptr[i]; j < s.ptr[i+1]; ++j) { col.push_back(s.col[j]); val.push_back(s.val[j]); } ptr.push_back((ptrdiff_t)col.size()); }
                backend::numa_vector<double> fl(nl), xl(nl);
                for (int i = 0; i < nl; ++i) { fl[i] = f[rb + i]; xl[i] = 0; }
                size_t it; double res;
                if (kind == 0) {
                    SDD::params prm;
                    prm.num_def_vec = ndv;
                    double mid = 0.5 * (rb + re - 1), span = std::max(1, nl);
                    // deflation vectors: constant, linear, quadratic in the (global) row index, per subdomain
                    prm.def_vec = [=](ptrdiff_t i, unsigned j) -> double { double t = ((rb + i) - mid) / span; return j == 0 ? 1.0 : (j == 1 ? t : t * t - 0.25); };
                    boost::property_tree::ptree lp; lp.put("class", "amg"); lp.put("relax.type", lrelax); lp.put("coarse_enough", 3);
                    prm.local = lp;
                    boost::property_tree::ptree sp; sp.put("type", solver); sp.put("tol", 1e-8); sp.put("maxiter", 200);
                    prm.isolver = sp;
                    SDD S(comm, std::make_tuple((size_t)nl, ptr, col, val), prm);
                    std::tie(it, res) = S(fl, xl);
                } else {
                    boost::property_tree::ptree prm; prm.put("solver.type", solver); prm.put("solver.tol", 1e-8); prm.put("solver.maxiter", 200); prm.put("precond.coarse_enough", 3);
                    BPSolver S(comm, std::make_tuple((size_t)nl, ptr, col, val), prm);
                    std::tie(it, res) = S(fl, xl);
                }
                o.it[r] = it; o.res[r] = res;
                for (int i = 0; i < nl; ++i) o.x[rb + i] = xl[i];
            } catch (const vs::Deadlock &) { throw; }
            catch (const std::exception &x) { o.exc[r] = x.what(); }
        });
    } catch (const vs::Deadlock &d) { return std::string("DEADLOCK: ") + d.what() + mm::where_all(); }
    catch (const std::exception &x) { return std::string("exception escaped: ") + x.what(); }
    for (int r = 0; r < k; ++r) if (!o.exc[r].empty()) return vf::KS() << "exception on rank " << r << ": " << o.exc[r];
    for (int r = 1; r < k; ++r) if (o.it[r] != o.it[0] || std::memcmp(&o.res[r], &o.res[0], 8) != 0)
        return vf::KS() << "rank " << r << " reports (" << o.it[r] << "," << o.res[r] << ") but rank 0 reports (" << o.it[0] << "," << o.res[0] << ")";
    long double tr = 0, nf = 0, nx = 0;
    for (int i = 0; i < s.n; ++i) { long double a = f[i]; for (ptrdiff_t j = s.ptr[i]; j < s.ptr[i+1]; ++j) a -= (long double)s.val[j] * o.x[s.col[j]]; tr += a * a; nf += (long double)f[i] * f[i]; nx += (long double)o.x[i] * o.x[i]; }
    double trel = (double)std::sqrt(tr / nf);
    // the reported value is the residual of the projected system; after the final correction the true residual of x
    // equals it in exact arithmetic.  Rounding: the C01 bound, with kappa^2 for the extra coarse solve + projection.
    double bound = 64 * 1.1102230246251565e-16 * (o.it[0] + 4) * std::sqrt((double)s.n) * s.kappa * s.kappa * (1 + s.normA * (double)std::sqrt(nx / nf));
    if (!(std::abs(o.res[0] - trel) <= bound + 1e-12 * o.res[0])) return vf::KS() << "reported residual " << o.res[0] << " but assembled solution has true relative residual " << trel << " (bound " << bound << ", iters " << o.it[0] << ")";
    if (!(o.res[0] < 1e-8)) return vf::KS() << "did not converge: iters " << o.it[0] << " residual " << o.res[0];
    return "";
}

static void run_sdd() {
    auto sys = systems();
    for (auto &s : sys) for (int k = 1; k <= (vf::quick() ? 3 : 4); ++k) {
        if (s.n < 12) continue;
        std::vector<Part> parts = some_partitions(s.n, k);
        for (auto &p : parts) {
            // subdomain deflation needs non-empty subdomains (a deflation vector of an empty subdomain is the zero vector: singular coarse problem)
            bool empty = false; for (int r = 0; r < k; ++r) empty |= p[r + 1] == p[r];
            for (int kind = 0; kind < 2; ++kind) for (int ndv = 1; ndv <= (kind ? 1 : 3); ++ndv) for (auto sv : {"bicgstab", "gmres", "fgmres"}) for (auto lr : {"spai0", "ilu0"}) {
                if (kind == 1 && std::string(lr) != "spai0") continue;
                if (kind == 0 && empty) continue;
                if (kind == 0) { int minrows = s.n; for (int r = 0; r < k; ++r) minrows = std::min(minrows, p[r + 1] - p[r]); if (minrows < ndv) continue; }   // fewer rows than deflation vectors: dependent vectors
                std::string key = vf::KS() << "sd|" << (kind ? "block_preconditioner" : "sdd") << "|" << s.name << "|" << k << "|" << pshow(p) << "|" << ndv << "|" << sv << "|" << lr;
                if (!vf::take([&]{ return key; })) continue;
                for (auto &e : ENVS) {
                    std::string v = sdd_once(s, p, ndv, sv, lr, kind, e);
                    vf::count("executions"); vf::S().transitions += 1;
                    if (!v.empty()) { vf::fail(kind ? "dsolve.block_preconditioner" : "dsolve.subdomain_deflation", key, vf::KS() << "schedule " << e.name << ": " << v); break; }
                    if (k == 1) break;
                }
                vf::S().states += 1;
                if (k > 1) vf::nontrivial(vf::hstr(key));
            }
        }
        vf::space(vf::KS() << "subdomain deflation (1..3 deflation vectors: constant, linear, quadratic) and block preconditioner: " << s.name << " x " << k << " ranks x characteristic partitions x {bicgstab, gmres, fgmres} x local relaxation {spai0, ilu0}");
    }
}

int main(int argc, char **argv) {
    vf::init(argc, argv, "C12");
    std::cout.setstate(std::ios::failbit);     // partition::merge prints to std::cout on rank 0
    vf::sample_str("solve case: grid4x3_c10, 3 ranks, rows 0,4,4,12 (rank 1 owns nothing), smoothed_aggregation + gauss_seidel + bicgstab, repartition merge; oracle: same (iters,residual) on all ranks, assembled x has that true residual, converged");
    vf::sample_str("hierarchy case: aggregation on grid5x5_c1, 3 ranks: every level operator extracted by distributed spmv on unit vectors; partition laws, R == P^T, A_c == R A P / 1.5, direct solver inverse");
#ifdef C12_UNIT_HIER
    if (vf::section("h")) { run_hier_t< mpi::coarsening::aggregation<B> >("aggregation"); run_hier_t< mpi::coarsening::smoothed_aggregation<B> >("smoothed_aggregation"); }
    if (vf::section("hp")) { run_hier_params< mpi::coarsening::aggregation<B> >("aggregation"); run_hier_params< mpi::coarsening::smoothed_aggregation<B> >("smoothed_aggregation"); }
    if (vf::section("hw")) { run_hier_weak< mpi::coarsening::aggregation<B> >("aggregation"); run_hier_weak< mpi::coarsening::smoothed_aggregation<B> >("smoothed_aggregation"); }
#elif defined(C12_UNIT_SDD)
    if (vf::section("sd")) run_sdd();
#else
    if (vf::section("sv") || vf::section("svx")) run_solve();
#endif
    return vf::finish();
}
