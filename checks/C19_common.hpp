// C19_common.hpp -- shared pieces of the C19 harness: memory-limit model, value lists,
// reader wrappers that turn one read into an outcome string, structural validation.
#ifndef VERIF_C19_COMMON_HPP
#define VERIF_C19_COMMON_HPP
#include <complex>
#include <limits>
#include <climits>
#include <cmath>
#include <cstring>
#include <new>
#include <amgcl/backend/builtin.hpp>
#include <amgcl/value_type/complex.hpp>
#include <amgcl/io/mm.hpp>
#include <amgcl/io/binary.hpp>
#include <amgcl/io/ios_saver.hpp>
#include "vf.hpp"
#include "C19_batch.hpp"

typedef std::complex<double> cd;
typedef std::complex<float>  cf;

// ---- type names ---------------------------------------------------------------------------------
template <class T> struct TN;
template <> struct TN<double>    { static const char *name() { return "double"; }  static const char *kind() { return "real"; } };
template <> struct TN<float>     { static const char *name() { return "float"; }   static const char *kind() { return "real"; } };
template <> struct TN<cd>        { static const char *name() { return "cdouble"; } static const char *kind() { return "complex"; } };
template <> struct TN<cf>        { static const char *name() { return "cfloat"; }  static const char *kind() { return "complex"; } };
template <> struct TN<int>       { static const char *name() { return "int"; }     static const char *kind() { return "integer"; } };
template <> struct TN<long long> { static const char *name() { return "llong"; }   static const char *kind() { return "integer"; } };
template <> struct TN<char>      { static const char *name() { return "char"; }    static const char *kind() { return "integer"; } };

// ---- value lists --------------------------------------------------------------------------------
template <class T> std::vector<T> specials();
template <> inline std::vector<double> specials<double>() {
    typedef std::numeric_limits<double> L;
    return {4.0, -0.0, 0.0, L::denorm_min(), -L::denorm_min(), L::min(), L::max(), L::lowest(), 1.0,
            std::nextafter(1.0, 2.0), std::nextafter(1.0, 0.0), 0.1, 1.0 / 3, 0.30000000000000004,
            2.2250738585072011e-308, 9007199254740993.0, 1.2345678901234567e+25, 1e300, -1e-300,
            1.4821969375237396e-323, 123456789012345678.0, 7.0e-10, 6.02214076e23, -1.7976931348623155e308,
            -0.1, 2.5, 1e22, 1e23, 8.98846567431158e307, 5e-324};
}
template <> inline std::vector<float> specials<float>() {
    typedef std::numeric_limits<float> L;
    return {4.0f, -0.0f, 0.0f, L::denorm_min(), -L::denorm_min(), L::min(), L::max(), L::lowest(), 1.0f,
            std::nextafter(1.0f, 2.0f), std::nextafter(1.0f, 0.0f), 0.1f, 1.0f / 3, 16777217.0f, 1e38f, -1e-38f,
            1e-44f, 3.4028233e38f, 7.0e-10f, 6.02214076e23f, -0.1f, 2.5f};
}
template <> inline std::vector<cd> specials<cd>() {
    auto d = specials<double>(); std::vector<cd> r;
    for (size_t k = 0; k < d.size(); ++k) r.push_back(cd(d[k], d[(k * 7 + 3) % d.size()]));
    return r;
}
template <> inline std::vector<cf> specials<cf>() {
    auto d = specials<float>(); std::vector<cf> r;
    for (size_t k = 0; k < d.size(); ++k) r.push_back(cf(d[k], d[(k * 7 + 3) % d.size()]));
    return r;
}
template <> inline std::vector<int> specials<int>() { return {5, 0, 1, -1, INT_MAX, INT_MIN, 1000000007, -42}; }
template <> inline std::vector<long long> specials<long long>() { return {5, 0, 1, -1, LLONG_MAX, LLONG_MIN, 1234567890123456789LL, -42}; }
template <> inline std::vector<char> specials<char>() { return {5, 0, 1, -1, 127, -128, 65, 48, 37, 100}; }

template <class T> inline T sval(int k, int salt) { static const std::vector<T> s = specials<T>(); return s[(size_t)(k * 5 + salt) % s.size()]; }

// every binade (all exponents incl. denormals) x 5 mantissa patterns x sign
inline std::vector<double> binades_double() {
    std::vector<double> r;
    const uint64_t mant[5] = {0, 1, 0xFFFFFFFFFFFFFull, 0x5555555555555ull, 0x8000000000000ull};
    for (uint64_t e = 0; e <= 2046; ++e) for (uint64_t mn : mant) for (uint64_t s = 0; s < 2; ++s) {
        uint64_t b = (s << 63) | (e << 52) | mn; double d; std::memcpy(&d, &b, 8); r.push_back(d);
    }
    for (int b = 0; b < 52; ++b) { uint64_t x = 1ull << b; double d; std::memcpy(&d, &x, 8); r.push_back(d); }   // every single-bit denormal
    return r;
}
inline std::vector<float> binades_float() {
    std::vector<float> r;
    const uint32_t mant[5] = {0, 1, 0x7FFFFF, 0x2AAAAA, 0x400000};
    for (uint32_t e = 0; e <= 254; ++e) for (uint32_t mn : mant) for (uint32_t s = 0; s < 2; ++s) {
        uint32_t b = (s << 31) | (e << 23) | mn; float d; std::memcpy(&d, &b, 4); r.push_back(d);
    }
    for (int b = 0; b < 23; ++b) { uint32_t x = 1u << b; float d; std::memcpy(&d, &x, 4); r.push_back(d); }
    return r;
}

// ---- small helpers ------------------------------------------------------------------------------
inline void put_file(const std::string &p, const std::string &bytes) {
    ::unlink(p.c_str());      // new inode every time: rewriting via O_TRUNC makes ext4 flush synchronously (auto_da_alloc)
    FILE *f = std::fopen(p.c_str(), "wb");
    if (!f) { perror("put_file"); std::abort(); }
    if (!bytes.empty()) std::fwrite(bytes.data(), 1, bytes.size(), f);
    std::fclose(f);
}
template <class T> inline void app(std::string &s, const T &v) { s.append((const char*)&v, sizeof(T)); }
template <class T> inline void appv(std::string &s, const std::vector<T> &v) { if (!v.empty()) s.append((const char*)v.data(), sizeof(T) * v.size()); }
template <class T> inline bool bits_eq(const std::vector<T> &a, const std::vector<T> &b) {
    return a.size() == b.size() && (a.empty() || std::memcmp(a.data(), b.data(), a.size() * sizeof(T)) == 0);
}
template <class T> inline bool bits_eq_range(const std::vector<T> &a, const std::vector<T> &b, size_t from, size_t n) {
    return a.size() == n && from + n <= b.size() && (n == 0 || std::memcmp(a.data(), b.data() + from, n * sizeof(T)) == 0);
}
inline std::string hex64(uint64_t h) { char b[20]; std::snprintf(b, sizeof b, "%016llx", (unsigned long long)h); return b; }
inline std::string printable(const std::string &s, size_t lim = 700) {
    std::string o;
    for (unsigned char c : s) {
        if (o.size() > lim) { o += "..."; break; }
        if (c == '\n') o += "\\n"; else if (c == '\\') o += "\\\\";
        else if (c < 0x20 || c >= 0x7f) { char b[8]; std::snprintf(b, sizeof b, "\\x%02x", c); o += b; }
        else o += (char)c;
    }
    return o;
}
inline std::string hexdump(const std::string &s, size_t lim = 400) {
    std::string o; char b[4];
    for (size_t i = 0; i < s.size() && i < lim; ++i) { std::snprintf(b, sizeof b, "%02x", (unsigned char)s[i]); o += b; if (i % 8 == 7) o += ' '; }
    return o;
}

// ---- structural validation ----------------------------------------------------------------------
// "" when (rows, ptr, col, nval) form a CRS structure; otherwise "<kind>: text".  ncols < 0: unknown
template <class P, class C>
std::string validate_crs(long long rows, long long ncols, const std::vector<P> &ptr, const std::vector<C> &col, size_t nval) {
    vf::KS e;
    if (rows < 0) return e << "negative_rows: rows=" << rows;
    if ((long long)ptr.size() != rows + 1) return e << "ptr_size: rows=" << rows << " but ptr.size()=" << ptr.size();
    if (ptr[0] != 0) return e << "ptr0_nonzero: ptr[0]=" << (long long)ptr[0];
    for (long long i = 0; i < rows; ++i) if (ptr[i + 1] < ptr[i]) return e << "ptr_not_monotone: ptr[" << i << "]=" << (long long)ptr[i] << " ptr[" << i + 1 << "]=" << (long long)ptr[i + 1];
    if ((long long)ptr[rows] != (long long)col.size() || col.size() != nval) return e << "size_mismatch: ptr.back()=" << (long long)ptr[rows] << " col.size()=" << col.size() << " val.size()=" << nval;
    for (size_t j = 0; j < col.size(); ++j) {
        long long c = (long long)col[j];
        if (c < 0) return e << "column_negative: col[" << j << "]=" << c;
        if (ncols >= 0 && c >= ncols) return e << "column_out_of_range: col[" << j << "]=" << c << " with " << ncols << " columns";
    }
    return "";
}
template <class P, class C, class V>
std::string digest(long long rows, long long cols, const std::vector<P> &ptr, const std::vector<C> &col, const std::vector<V> &val) {
    uint64_t h = vf::hmix(vf::hmix(7, (uint64_t)rows), (uint64_t)cols);
    if (!ptr.empty()) h = vf::hbytes(ptr.data(), ptr.size() * sizeof(P), h);
    if (!col.empty()) h = vf::hbytes(col.data(), col.size() * sizeof(C), h);
    if (!val.empty()) h = vf::hbytes(val.data(), val.size() * sizeof(V), h);
    return hex64(h);
}

// ---- one read -> outcome string ("V <digest>" | "I:<kind>: text" | "X:<what>") --------------------
template <class Idx, class Val>
std::string rd_mm_sparse(const std::string &p, long beg, long end) {
    try {
        amgcl::io::mm_reader r(p);
        std::vector<Idx> ptr, col; std::vector<Val> val; size_t rows = 0, cols = 0;
        std::tie(rows, cols) = r(ptr, col, val, beg, end);
        if (beg >= 0 && end >= 0 && (long long)rows != end - beg) return vf::KS() << "I:rows_returned: asked for rows [" << beg << "," << end << ") got " << rows;
        if ((long long)rows < 0 || (long long)cols < 0) return vf::KS() << "I:negative_size: rows=" << (long long)rows << " cols=" << (long long)cols;
        std::string e = validate_crs((long long)rows, (long long)cols, ptr, col, val.size());
        if (!e.empty()) return "I:" + e;
        return "V " + digest((long long)rows, (long long)cols, ptr, col, val);
    } catch (const std::exception &e) { return std::string("X:") + e.what(); }
}
template <class Val>
std::string rd_mm_dense(const std::string &p, long beg, long end) {
    try {
        amgcl::io::mm_reader r(p);
        std::vector<Val> val; size_t rows = 0, cols = 0;
        std::tie(rows, cols) = r(val, beg, end);
        if (beg >= 0 && end >= 0 && (long long)rows != end - beg) return vf::KS() << "I:rows_returned: asked for rows [" << beg << "," << end << ") got " << rows;
        if ((long long)rows < 0 || (long long)cols < 0) return vf::KS() << "I:negative_size: rows=" << (long long)rows << " cols=" << (long long)cols;
        if ((unsigned __int128)rows * cols != (unsigned __int128)val.size()) return vf::KS() << "I:size_mismatch: rows=" << rows << " cols=" << cols << " val.size()=" << val.size();
        std::vector<int> none;
        return "V " + digest((long long)rows, (long long)cols, none, none, val);
    } catch (const std::exception &e) { return std::string("X:") + e.what(); }
}
template <class SizeT, class Ptr, class Col, class Val>
std::string rd_bin_crs(const std::string &p, long beg, long end) {
    try {
        SizeT n = 0; std::vector<Ptr> ptr; std::vector<Col> col; std::vector<Val> val;
        amgcl::io::read_crs(p, n, ptr, col, val, beg, end);
        long long rows = (end < 0 ? (long long)n : end) - (beg < 0 ? 0 : beg);
        std::string e = validate_crs(rows, -1, ptr, col, val.size());
        if (!e.empty()) return "I:" + e;
        return "V " + digest((long long)n, 0, ptr, col, val);
    } catch (const std::exception &e) { return std::string("X:") + e.what(); }
}
template <class SizeT, class Val>
std::string rd_bin_dense(const std::string &p, long beg, long end) {
    try {
        SizeT n = 0, m = 0; std::vector<Val> v;
        amgcl::io::read_dense(p, n, m, v, beg, end);
        long long rows = (end < 0 ? (long long)n : end) - (beg < 0 ? 0 : beg);
        if ((long long)n < 0 || (long long)m < 0 || rows < 0) return vf::KS() << "I:negative_size: n=" << (long long)n << " m=" << (long long)m;
        if ((unsigned __int128)rows * (unsigned __int128)m != (unsigned __int128)v.size()) return vf::KS() << "I:size_mismatch: rows=" << rows << " m=" << (long long)m << " v.size()=" << v.size();
        std::vector<int> none;
        return "V " + digest((long long)n, (long long)m, none, none, v);
    } catch (const std::exception &e) { return std::string("X:") + e.what(); }
}

// ---- batching + reporting -----------------------------------------------------------------------
struct Batch {
    bt::Runner &R;
    std::vector<bt::Item> items;
    std::vector<std::function<void(const bt::Outcome&)>> h;
    explicit Batch(bt::Runner &R) : R(R) {}
    void add(const std::string &key, std::function<std::string()> fn, std::function<void(const bt::Outcome&)> handler) {
        items.push_back({key, std::move(fn)}); h.push_back(std::move(handler));
    }
    void flush() {
        if (items.empty()) return;
        R.run(items, [&](size_t i, const bt::Outcome &o) { h[i](o); });
        items.clear(); h.clear();
    }
    ~Batch() { flush(); }
};

inline std::string squash(const std::string &s) { std::string o; for (char c : s) o += (isalnum((unsigned char)c) || c == '.' || c == '-') ? c : '_'; return o; }

// Reports crashes and sanitizer output of one item.  Returns true when the item crashed.
inline bool report_san(const std::string &prefix, const std::string &key, const bt::Outcome &o, const std::string &input) {
    if (o.kind == bt::Outcome::CRASH) {
        std::string loc, sig = bt::san_signature(o.san, &loc);
        if (sig.compare(0, 5, "asan.") != 0) sig = squash(o.crash) + (sig.empty() ? "" : ".after_" + sig);
        std::string sub = prefix + ".crash." + sig + (loc.empty() ? "" : "." + bt::file_of(loc));
        vf::count("outcome.crash");
        vf::fail(sub, key, "process died (" + o.crash + ") at " + loc + " | input: " + input + " | report: " + printable(o.san, 900));
        return true;
    }
    if (!o.san.empty()) {
        std::string loc, sig = bt::san_signature(o.san, &loc);
        if (sig.empty()) sig = "stderr_output";
        vf::count("outcome.sanitizer_report_recovered");
        vf::fail(prefix + "." + sig + (loc.empty() ? "" : "." + bt::file_of(loc)), key, "sanitizer report at " + loc + " | input: " + input + " | report: " + printable(o.san, 900));
    }
    return false;
}

#endif
