// C04 unit "interp" -- smoothed aggregation returns (I - omega D^-1 A_F) P_tent; row sums of the
// smoothed-aggregation and Ruge-Stuben interpolation on zero-row-sum rows of symmetric matrices.
#include "C04_common.hpp"
#include <amgcl/coarsening/aggregation.hpp>
#include <amgcl/coarsening/smoothed_aggregation.hpp>
#include <amgcl/coarsening/ruge_stuben.hpp>

using namespace c04;
typedef backend::builtin<double> Backend;

static const float EPS[3] = {0.0f, 0.08f, 0.5f};

static std::vector<double> make_nullspace(int N, int b, int cols) {
    std::vector<double> B((size_t)N * cols);
    for (int r = 0; r < N; ++r) {
        int I = r / b, k = r % b;
        double v[3];
        if (b == 1) { v[0] = 1; v[1] = r; v[2] = (double)r * r; }
        else { v[0] = (k == 0); v[1] = (k == 1); v[2] = (k == 0) ? -(I + 1) : (k == 1 ? 2 * I + 1 : 0); }
        for (int c = 0; c < cols; ++c) B[(size_t)r * cols + c] = v[c];
    }
    return B;
}

struct Ctx { std::string key; int rule; float eps; std::string Ashow; };

// One smoothed-aggregation case.  KD: the matrix (dense description), b block size, cols nullspace dim.
static void sa_case(const Ctx &c, const Dn &KD, const Dn *scalarA, int b, int cols, float relax, bool estimate, const char *variant, bool rowsums) {
    const int N = KD.m;
    auto K = mk::to_crs<double>(KD);
    std::string sfx = vf::KS() << ".b" << b;
    std::string at = vf::KS() << "rule=" << c.rule << " eps_strong=" << c.eps << " block_size=" << b << " " << variant << " nullspace_cols=" << cols
        << " relax=" << relax << " estimate_spectral_radius=" << estimate << " A=" << c.Ashow;

    // what transfer_operators() is documented to build on: the public aggregates and P_tent
    // (validated first without removal of small aggregates: malformed ids would make the library itself run out of bounds)
    Aggr g = run_pointwise(*K, c.eps, b, 0);
    std::vector<double> B = make_nullspace(N, b, cols);
    if (!g.empty_level) {
        std::string e = partition_laws(*K, g, b, true);
        if (!e.empty() && e.find("strong neighbour") == std::string::npos) { vf::fail("sa.aggregates_malformed" + sfx, c.key, e + " " + at); return; }   // the aggr unit reports the details
        if (cols > 1) g = run_pointwise(*K, c.eps, b, cols);
    }

    coarsening::smoothed_aggregation<Backend>::params prm;
    prm.aggr.eps_strong = c.eps; prm.aggr.block_size = b;
    prm.nullspace.cols = cols; prm.nullspace.B = B;
    prm.relax = relax; prm.estimate_spectral_radius = estimate; prm.power_iters = 0;
    coarsening::smoothed_aggregation<Backend> sa(prm);
    std::shared_ptr<Crs> P, R;
    bool threw = false;
    try { std::tie(P, R) = sa.transfer_operators(*K); } catch (const error::empty_level &) { threw = true; }
    if (threw != g.empty_level) { vf::fail("sa.empty_level" + sfx, c.key, at); return; }
    if (threw) { vf::count("sa_empty_level"); return; }

    coarsening::nullspace_params ns; ns.cols = cols; ns.B = B;
    auto Pt = coarsening::tentative_prolongation<Crs>(N, g.count, g.id, ns, b);
    Dn Ptd, Pd;
    std::string err = mk::from_crs(*Pt, Ptd, false);
    if (!err.empty()) { vf::fail("sa.tentative_wellformed" + sfx, c.key, err + " " + at); return; }
    err = mk::from_crs(*P, Pd, false);
    if (!err.empty()) { vf::fail("sa.wellformed" + sfx, c.key, err + " " + at); return; }
    if (Pd.m != Ptd.m || Pd.n != Ptd.n) { vf::fail("sa.shape" + sfx, c.key, at); return; }
    if (sa.prm.nullspace.B != ns.B) { vf::fail("sa.coarse_nullspace" + sfx, c.key, "coarse near-null space differs from the one of the tentative prolongation " + at); return; }

    // omega exactly as documented: relax * 2/3, or relax * (4/3) / rho(D^-1 A) (Gershgorin, power_iters = 0)
    double omega = relax;
    if (estimate) omega *= static_cast<double>(4.0 / 3) / backend::spectral_radius<true>(*K, 0);
    else omega *= static_cast<double>(2.0 / 3);

    const int nc = Ptd.n;
    bool symmetric = rowsums && is_symmetric(KD);
    for (int i = 0; i < N; ++i) {
        // filtered row: weak off-diagonals are lumped into the diagonal (row sums of A_F = row sums of A)
        long double d = 0; int k_terms = 0; bool has_strong = false;
        for (auto j = K->ptr[i]; j < K->ptr[i + 1]; ++j) {
            if (K->col[j] == i || !g.S[j]) d += K->val[j]; else has_strong = true;
            ++k_terms;
        }
        if (d == 0) { vf::count("sa_rows_with_zero_filtered_diagonal_skipped"); continue; }   // formula undefined (D singular)
        std::vector<long double> ref(nc, 0), mag(nc, 0); std::vector<char> pat(nc, 0);
        long double rowmag = 0;
        for (auto j = K->ptr[i]; j < K->ptr[i + 1]; ++j) {
            int cj = (int)K->col[j];
            long double m;
            if (cj == i) m = 1.0L - omega;
            else if (g.S[j]) m = -(long double)omega * K->val[j] / d;
            else continue;
            rowmag += fabsl(m);
            for (int q = 0; q < nc; ++q) if (Ptd.st(cj, q)) { ref[q] += m * Ptd(cj, q); mag[q] += fabsl(m * Ptd(cj, q)); pat[q] = 1; }
        }
        // rounding: every term is built with <= 5 roundings (1-omega | 1/d, *omega, *a ; *p) and the row has
        // k_terms additions  ->  |error| <= (k_terms + 8) u sum|terms|
        for (int q = 0; q < nc; ++q) {
            if ((bool)Pd.st(i, q) != (bool)pat[q]) {
                vf::fail("sa.pattern" + sfx, c.key, vf::KS() << "P(" << i << "," << q << ") stored=" << (int)Pd.st(i, q) << " expected stored=" << (int)pat[q] << " " << at
                    << " strong=" << show_flags(*K, g.S) << " P_tent=" << mk::show(Ptd) << " P=" << mk::show(Pd)); return; }
            if (!pat[q]) continue;
            long double tol = (k_terms + 8) * U * mag[q];
            if (fabsl(Pd(i, q) - ref[q]) > tol) {
                vf::fail("sa.formula" + sfx, c.key, vf::KS() << "P(" << i << "," << q << ") = " << Pd(i, q) << " but (I - omega D^-1 A_F) P_tent gives " << (double)ref[q] << " (omega=" << omega << ") " << at
                    << " strong=" << show_flags(*K, g.S) << " P_tent=" << mk::show(Ptd) << " P=" << mk::show(Pd)); return; }
        }
        vf::count("sa_rows_compared");
        if (symmetric && cols == 0 && has_strong && zero_row_sum(KD, i) && KD(i, i) > 0) {
            long double s = 0; for (int q = 0; q < nc; ++q) if (Pd.st(i, q)) s += Pd(i, q);
            long double tol = (k_terms + 8) * U * rowmag;
            if (fabsl(s - 1) > tol) {
                vf::fail("sa.rowsum" + sfx, c.key, vf::KS() << "row " << i << " of P sums to " << (double)s << " " << at << " P=" << mk::show(Pd)); return; }
            vf::count("sa_zero_rowsum_rows_checked");
        }
    }
    vf::count("sa_cases");
}

// plain aggregation: transfer_operators() returns the tentative prolongation itself
static void aggregation_case(const Ctx &c, const Dn &KD, int b, int cols) {
    const int N = KD.m;
    auto K = mk::to_crs<double>(KD);
    Aggr g = run_pointwise(*K, c.eps, b, 0);
    std::vector<double> B = make_nullspace(N, b, cols);
    if (!g.empty_level) { std::string e = partition_laws(*K, g, b, true); if (!e.empty() && e.find("strong neighbour") == std::string::npos) return; if (cols > 1) g = run_pointwise(*K, c.eps, b, cols); }
    coarsening::aggregation<Backend>::params prm;
    prm.aggr.eps_strong = c.eps; prm.aggr.block_size = b; prm.nullspace.cols = cols; prm.nullspace.B = B;
    coarsening::aggregation<Backend> ag(prm);
    std::shared_ptr<Crs> P, R; bool threw = false;
    try { std::tie(P, R) = ag.transfer_operators(*K); } catch (const error::empty_level &) { threw = true; }
    std::string at = vf::KS() << "rule=" << c.rule << " eps_strong=" << c.eps << " block_size=" << b << " nullspace_cols=" << cols << " A=" << c.Ashow;
    if (threw != g.empty_level) { vf::fail("aggregation.empty_level", c.key, at); return; }
    if (threw) return;
    coarsening::nullspace_params ns; ns.cols = cols; ns.B = B;
    auto Pt = coarsening::tentative_prolongation<Crs>(N, g.count, g.id, ns, b);
    Dn a, t; std::string why;
    std::string e1 = mk::from_crs(*P, a, false), e2 = mk::from_crs(*Pt, t, false);
    if (!e1.empty() || !e2.empty() || !mk::same(a, t, why)) vf::fail("aggregation.is_tentative_prolongation", c.key, e1 + e2 + why + " " + at);
    vf::count("aggregation_cases");
}

// Ruge-Stuben on symmetric matrices.  A row "has a strong neighbour" in the Ruge-Stuben sense iff it has a negative
// off-diagonal entry (the most negative one always passes -a_ij >= eps_strong max|a_ik|, eps_strong < 1); rows without one
// are F-rows without interpolation and are not subject to the row-sum law.
static void rs_case(const Ctx &c, const Dn &D) {
    const int n = D.m;
    std::vector<char> has_neg(n, 0); int nneg = 0;
    for (int i = 0; i < n; ++i) { for (int j = 0; j < n; ++j) if (j != i && D.st(i, j) && D(i, j) < 0) has_neg[i] = 1; nneg += has_neg[i]; }
    if (!nneg) { vf::count("rs_matrices_without_any_negative_offdiagonal_skipped"); return; }
    if (nneg < n) vf::count("rs_matrices_with_rows_without_negative_offdiagonal");
    if (!is_symmetric(D)) return;
    auto A = mk::to_crs<double>(D);
    struct V { float eps; bool trunc; float etr; const char *name; };
    const V variants[] = {{0.25f, false, 0.2f, "notrunc"}, {0.25f, true, 0.2f, "trunc0.2"}, {0.25f, true, 0.5f, "trunc0.5"}, {0.5f, true, 0.2f, "trunc0.2"}, {0.5f, false, 0.2f, "notrunc"}};
    for (const V &v : variants) {
        coarsening::ruge_stuben<Backend>::params prm; prm.eps_strong = v.eps; prm.do_trunc = v.trunc; prm.eps_trunc = v.etr;
        coarsening::ruge_stuben<Backend> rs(prm);
        std::shared_ptr<Crs> P, R;
        std::string at = vf::KS() << "rule=" << c.rule << " eps_strong=" << v.eps << " do_trunc=" << v.trunc << " eps_trunc=" << v.etr << " A=" << c.Ashow;
        try { std::tie(P, R) = rs.transfer_operators(*A); } catch (const error::empty_level &) { vf::fail("rs.empty_level", c.key, "no C point although some row has a strong neighbour " + at); continue; }
        Dn Pd; std::string err = mk::from_crs(*P, Pd, false);
        if (!err.empty()) { vf::fail("rs.wellformed", c.key, err + " " + at); continue; }
        vf::count("rs_cases");
        bool dropped = false;
        for (int i = 0; i < n; ++i) {
            if (!(has_neg[i] && zero_row_sum(D, i) && D(i, i) > 0)) continue;
            long double s = 0, mag = 0; int k = 0;
            for (int q = 0; q < Pd.n; ++q) if (Pd.st(i, q)) { s += Pd(i, q); mag += std::abs(Pd(i, q)); ++k; }
            // alpha is built with <= 8 roundings, every weight with one more, the sum with k: (k + 10) u sum|w|
            long double tol = (k + 10) * U * std::max<long double>(mag, 1);
            if (fabsl(s - 1) > tol) {
                vf::fail(std::string("rs.rowsum.") + v.name, c.key, vf::KS() << "row " << i << " of P sums to " << (double)s << " " << at << " P=" << mk::show(Pd));
                break;
            }
            vf::count("rs_zero_rowsum_rows_checked");
            if (k > 1) vf::count("rs_F_rows_with_2_or_more_weights");
        }
    }
}

static void run_graph(const std::string &key, int n, uint64_t mask, bool directed) {
    for (int rule = 0; rule < 3; ++rule) {
        Dn D = make_matrix(n, mask, directed, rule);
        std::string Ashow = mk::show(D);
        for (int ie = 0; ie < 3; ++ie) {
            Ctx c{key, rule, EPS[ie], Ashow};
            vf::nontrivial(vf::hstr(vf::KS() << key << "|" << rule << "|" << ie));
            // smoothed aggregation
            for (int pv = 0; pv < 2; ++pv) {
                float relax = pv ? 0.75f : 1.0f; bool est = pv;
                for (int cols = 0; cols <= 3; ++cols) sa_case(c, D, &D, 1, cols, relax, est, "scalar", !directed);
                Dn K2 = kron_identity(D, 2);
                sa_case(c, K2, &D, 2, 0, relax, est, "A(x)I_b", !directed);
                sa_case(c, K2, &D, 2, 3, relax, est, "A(x)I_b", false);
                if (pv == 0) {
                    sa_case(c, kron_incomplete(D, 2), &D, 2, 0, relax, est, "incomplete-blocks", false);
                    sa_case(c, kron_identity(D, 3), &D, 3, 0, relax, est, "A(x)I_b", !directed);
                }
            }
            if (ie == 1) { aggregation_case(c, D, 1, 0); aggregation_case(c, D, 1, 2); aggregation_case(c, kron_identity(D, 2), 2, 3); }
        }
        if (!directed) { Ctx c{key, rule, 0.25f, Ashow}; rs_case(c, D); }
    }
}

int main(int argc, char **argv) {
    vf::init(argc, argv, "C04");
    if (vf::section("ug")) {
        int nmax = vf::thorough() ? 7 : 6;
        for (int n = 1; n <= nmax; ++n) {
            for (uint64_t mask = 0; mask < (1ull << ubits(n)); ++mask) {
                std::string key;
                if (!vf::take([&]{ return key = (vf::KS() << "ug|" << n << "|" << mask).str(); })) continue;
                if (key.empty()) key = vf::KS() << "ug|" << n << "|" << mask;
                run_graph(key, n, mask, false);
            }
            vf::space(vf::KS() << "smoothed aggregation formula + row sums, Ruge-Stuben row sums: all 2^" << ubits(n) << " labelled undirected graphs on " << n << " nodes x 3 value rules x eps_strong {0,0.08,0.5} x block_size {1,2,3} x nullspace dimension 0..3 x (relax, estimate_spectral_radius) in {(1,no),(0.75,yes)}; RS: eps_strong {0.25,0.5} x truncation {off,0.2,0.5}");
        }
    }
    if (vf::section("dg")) {
        int nmax = vf::thorough() ? 5 : 4;
        for (int n = 2; n <= nmax; ++n) {
            for (uint64_t mask = 0; mask < (1ull << dbits(n)); ++mask) {
                std::string key;
                if (!vf::take([&]{ return key = (vf::KS() << "dg|" << n << "|" << mask).str(); })) continue;
                if (key.empty()) key = vf::KS() << "dg|" << n << "|" << mask;
                run_graph(key, n, mask, true);
            }
            vf::space(vf::KS() << "smoothed aggregation formula: all 2^" << dbits(n) << " directed off-diagonal patterns on " << n << " nodes x 3 value rules x eps_strong {0,0.08,0.5} x block_size {1,2,3} x nullspace dimension 0..3");
        }
    }
    return vf::finish();
}
