// C09 (unit "sched") -- level-scheduled parallel Gauss-Seidel / ILU triangular solves:
//  (S) static schedule check: read the task lists built by the real constructors and require
//      that no two rows coupled by a stored entry share a level and that the level order agrees
//      with the serial sweep order (flow AND anti dependencies);
//  (X) schedule exploration: run the real sweep()/solve() on a proxy vector whose element
//      accesses are scheduling points, under the fiber OpenMP shim, and explore ALL thread
//      interleavings (DFS with state-hash pruning, no preemption bound); every complete
//      execution must give the serial sweep's result bit for bit;
//  (K) all entry orders of unordered critical sections (spectral radius, SpGEMM row width).
#include <amgcl/backend/builtin.hpp>
#include <amgcl/relaxation/gauss_seidel.hpp>
#include <amgcl/relaxation/detail/ilu_solve.hpp>
#include <cstring>
#include "vf.hpp"
#include "mk.hpp"
#include "vsched.hpp"
#include "pvec.hpp"

using namespace amgcl;
typedef backend::builtin<double> B;
typedef backend::crs<double, ptrdiff_t, ptrdiff_t> Crs;

static uint64_t hvec(const std::vector<double> &x) { return vf::hbytes(x.data(), x.size() * sizeof(double)); }
static std::string vshow(const std::vector<double> &x) { vf::KS k; for (size_t i = 0; i < x.size(); ++i) k << (i ? "," : "") << x[i]; return k; }
static std::string cshow(const std::vector<int> &c) { vf::KS k; for (size_t i = 0; i < c.size(); ++i) k << (i ? "," : "") << c[i]; return k; }

// off-diagonal mask -> full mask with diagonal
static uint64_t with_diag(int n, uint64_t off) {
    uint64_t m = 0; int b = 0;
    for (int i = 0; i < n; ++i) for (int j = 0; j < n; ++j) {
        if (i == j) m |= 1ull << (i * n + j);
        else { if (mk::bit(off, b)) m |= 1ull << (i * n + j); ++b; }
    }
    return m;
}
static bool sym_mask(int n, uint64_t m) {
    for (int i = 0; i < n; ++i) for (int j = 0; j < n; ++j) if (mk::bit(m, i*n+j) != mk::bit(m, j*n+i)) return false;
    return true;
}
static mk::Dense<double> gs_matrix(int n, uint64_t mask, int rule) {
    static const double dia[4] = {2, 4, -2, 1};
    return mk::from_mask<double>(n, n, mask, [&](int i, int j) {
        if (i == j) return dia[(i + rule) % 4];
        int v = 1 + (3 * i + 5 * j + rule) % 3; return (double)(((i + j + rule) & 1) ? -v : v);
    });
}

// ---------------------------------------------------------------------------------------------
// (S) static schedule checks
template <bool forward, class Sweep>
static void static_check_gs(const Sweep &S, const mk::Dense<double> &D, const std::string &key, int nt) {
    int n = D.m;
    std::vector<int> level(n, -1), owner(n, -1);
    for (int t = 0; t < S.nthreads; ++t) {
        for (size_t lev = 0; lev < S.tasks[t].size(); ++lev)
            for (ptrdiff_t r = S.tasks[t][lev].beg; r < S.tasks[t][lev].end; ++r) {
                int i = (int)S.ord[t][r];
                if (i < 0 || i >= n || level[i] != -1) { vf::fail("gs.static.rows_not_partitioned", key, vf::KS() << "row " << i << " nt=" << nt << " A=" << mk::show(D)); return; }
                level[i] = (int)lev; owner[i] = t;
                // local copy of the row
                int w = 0; for (int j = 0; j < n; ++j) w += D.st(i, j);
                if (S.ptr[t][r+1] - S.ptr[t][r] != w) { vf::fail("gs.static.row_copy", key, vf::KS() << "row " << i << " width"); return; }
                for (ptrdiff_t q = S.ptr[t][r]; q < S.ptr[t][r+1]; ++q) {
                    int c = (int)S.col[t][q];
                    if (c < 0 || c >= n || !D.st(i, c) || S.val[t][q] != D(i, c)) { vf::fail("gs.static.row_copy", key, vf::KS() << "row " << i << " entry " << c); return; }
                }
            }
    }
    for (int i = 0; i < n; ++i) if (level[i] < 0) { vf::fail("gs.static.rows_not_partitioned", key, vf::KS() << "row " << i << " missing nt=" << nt << " A=" << mk::show(D)); return; }
    for (int i = 0; i < n; ++i) for (int c = 0; c < n; ++c) if (c != i && D.st(i, c)) {
        // row i reads x[c]; row c writes x[c]
        if (level[i] == level[c]) {
            vf::fail(forward ? "gs.static.same_level_conflict.forward" : "gs.static.same_level_conflict.backward", key,
                     vf::KS() << "rows " << i << " and " << c << " share level " << level[i] << " but A(" << i << "," << c << ") is stored; nt=" << nt << " A=" << mk::show(D));
            return;
        }
        bool c_first_serial = forward ? (c < i) : (c > i);
        bool c_first_par = level[c] < level[i];
        if (c_first_serial != c_first_par) {
            vf::fail(forward ? "gs.static.order_vs_serial.forward" : "gs.static.order_vs_serial.backward", key,
                     vf::KS() << "row " << i << " reads x[" << c << "]: serial sweep processes row " << c << (c_first_serial ? " before" : " after") << " row " << i
                              << ", level schedule does the opposite (levels " << level[c] << " vs " << level[i] << "); nt=" << nt << " A=" << mk::show(D));
            return;
        }
    }
}

template <bool lower, class Solve>
static void static_check_tri(const Solve &S, const mk::Dense<double> &T, const std::string &key, int nt) {
    int n = T.m;
    std::vector<int> level(n, -1);
    for (int t = 0; t < S.nthreads; ++t)
        for (size_t lev = 0; lev < S.tasks[t].size(); ++lev)
            for (ptrdiff_t r = S.tasks[t][lev].beg; r < S.tasks[t][lev].end; ++r) {
                int i = (int)S.ord[t][r];
                if (i < 0 || i >= n || level[i] != -1) { vf::fail("ilu.static.rows_not_partitioned", key, vf::KS() << "row " << i); return; }
                level[i] = (int)lev;
            }
    for (int i = 0; i < n; ++i) if (level[i] < 0) { vf::fail("ilu.static.rows_not_partitioned", key, vf::KS() << "row " << i << " missing"); return; }
    for (int i = 0; i < n; ++i) for (int c = 0; c < n; ++c) if (c != i && T.st(i, c)) {
        if (!(level[c] < level[i])) {
            vf::fail(lower ? "ilu.static.dependency.lower" : "ilu.static.dependency.upper", key,
                     vf::KS() << "row " << i << " reads x[" << c << "] but level(" << c << ")=" << level[c] << " >= level(" << i << ")=" << level[i] << " nt=" << nt << " T=" << mk::show(T));
            return;
        }
    }
}

static void run_static() {
    // Gauss-Seidel: all patterns with full diagonal, n = 2..4 (quick) ; n = 5 symmetric only (quick), all (thorough)
    for (int n = 2; n <= 5; ++n) {
        int nb = n * (n - 1);
        for (uint64_t off = 0; off < (1ull << nb); ++off) {
            uint64_t mask = with_diag(n, off);
            if (n == 5 && vf::quick() && !sym_mask(n, mask) && (off % 64) != 1) continue;
            if (!vf::take([&]{ return std::string(vf::KS() << "sgs|" << n << "|" << mask); })) continue;
            std::string key = vf::KS() << "sgs|" << n << "|" << mask;
            auto D = gs_matrix(n, mask, 0);
            auto A = mk::to_crs<double>(D);
            if (!sym_mask(n, mask)) vf::count("static_gs_nonsymmetric_patterns");
            if (off) vf::nontrivial(vf::hstr(key));
            for (int nt : {4, 5, 8}) {
                vs::cfg().max_threads = nt; vs::cfg().prefix.clear(); vs::begin_execution();
                relaxation::gauss_seidel<B> gs(*A, relaxation::gauss_seidel<B>::params(), B::params());
                if (gs.is_serial) { vf::fail("gs.parallel_path_not_selected", key, vf::KS() << "nt=" << nt); continue; }
                static_check_gs<true>(*gs.forward, D, key, nt);
                static_check_gs<false>(*gs.backward, D, key, nt);
            }
            vs::cfg().max_threads = 1;
        }
        vf::space(vf::KS() << "static GS level schedule: " << ((n == 5 && vf::quick()) ? "symmetric + every 64th" : "all") << " patterns " << n << "x" << n << " with full diagonal x threads {4,5,8} x forward/backward");
    }
    // triangular solves: all strictly lower / upper patterns up to 6x6 (2^15 each)
    for (int n = 2; n <= (vf::quick() ? 5 : 6); ++n) {
        int nb = n * (n - 1) / 2;
        for (uint64_t tri = 0; tri < (1ull << nb); ++tri) {
            if (!vf::take([&]{ return std::string(vf::KS() << "stri|" << n << "|" << tri); })) continue;
            std::string key = vf::KS() << "stri|" << n << "|" << tri;
            mk::Dense<double> L(n, n), U(n, n);
            int b = 0;
            for (int i = 0; i < n; ++i) for (int j = 0; j < i; ++j, ++b) if (mk::bit(tri, b)) { L.st(i, j) = 1; L(i, j) = 1 + (i + 2 * j) % 3; U.st(j, i) = 1; U(j, i) = 1 + (2 * i + j) % 3; }
            auto Lm = mk::to_crs<double>(L); auto Um = mk::to_crs<double>(U);
            auto Dv = std::make_shared< backend::numa_vector<double> >(n);
            for (int i = 0; i < n; ++i) (*Dv)[i] = (i & 1) ? 0.5 : 2.0;
            if (tri) vf::nontrivial(vf::hstr(key));
            for (int nt : {4, 5, 8}) {
                vs::cfg().max_threads = nt; vs::cfg().prefix.clear(); vs::begin_execution();
                typedef relaxation::detail::ilu_solve<B> Solve;
                Solve::params p; p.serial = false;
                Solve s(Lm, Um, Dv, p);
                static_check_tri<true>(*s.lower, L, key, nt);
                static_check_tri<false>(*s.upper, U, key, nt);
            }
            vs::cfg().max_threads = 1;
        }
        vf::space(vf::KS() << "static ILU level schedule: all strictly triangular patterns " << n << "x" << n << " x threads {4,5,8}");
    }
}

// ---------------------------------------------------------------------------------------------
// (X) exhaustive schedule exploration on the proxy vector
struct XRes { vs::ExploreStats st; std::vector<int> bad_choices; uint64_t bad_obs = 0; bool bad = false; std::string what; };

template <class Body>
static XRes explore_all(std::vector<double> &x, const std::vector<double> &x0, uint64_t want, Body &&run, long long max_exec) {
    XRes R;
    auto body = [&]() -> uint64_t {
        x = x0;
        try { run(); }
        catch (const vs::Deadlock &e) { return 0xdeadull; }
        catch (const vs::StepCap &e) { return 0xcab0ull; }
        return hvec(x);
    };
    vs::cfg().state_hash = [&]{ return hvec(x); };
    R.st = vs::explore(body, -1, max_exec, [&](const std::vector<int> &ch, uint64_t obs) {
        if (obs != want && !R.bad) { R.bad = true; R.bad_choices = ch; R.bad_obs = obs; }
    });
    vs::cfg().state_hash = nullptr;
    if (R.bad) {
        // replay discipline: the recorded schedule must reproduce the same observation twice
        int same = 0;
        std::vector<double> got;
        for (int k = 0; k < 2; ++k) {
            vs::cfg().prefix = R.bad_choices; vs::begin_execution();
            uint64_t o = body();
            if (o == R.bad_obs) ++same;
            got = x;
        }
        vs::cfg().prefix.clear();
        vf::S().traces_validated += same;
        R.what = vf::KS() << "schedule [" << cshow(R.bad_choices) << "] gives x=(" << vshow(got) << ")"
                          << (R.bad_obs == 0xdeadull ? " DEADLOCK" : "") << " ; replayed " << same << "/2 identical";
    }
    return R;
}

static void account(const XRes &R, const std::string &key) {
    vf::S().states += R.st.states;
    vf::S().transitions += R.st.transitions + R.st.executions;
    vf::count("executions", R.st.executions);
    vf::count("pruned_by_state_hash", R.st.pruned);
    if (R.st.outcomes.size() > 1) vf::count("inputs_with_more_than_one_outcome");
    if (R.st.capped) { vf::count("inputs_capped"); vf::cap("schedule exploration hit the per-input execution cap for at least one input (those inputs are covered only partially)"); }
}

static void run_explore_gs() {
    long long cap = 200000;
    for (int n = 2; n <= 4; ++n) {
        int nb = n * (n - 1);
        for (uint64_t off = 0; off < (1ull << nb); ++off) {
            uint64_t mask = with_diag(n, off);
            // quick: n = 4 restricted to symmetric patterns + every 16th pattern
            if (n == 4 && vf::quick() && !sym_mask(n, mask) && (off % 64) != 3) continue;
            for (int nt : {4, 5}) {
                if (nt == 5 && n == 4 && vf::quick()) continue;
                if (!vf::take([&]{ return std::string(vf::KS() << "xgs|" << n << "|" << mask << "|" << nt); })) continue;
                std::string key = vf::KS() << "xgs|" << n << "|" << mask << "|" << nt;
                auto D = gs_matrix(n, mask, 1);
                auto A = mk::to_crs<double>(D);
                std::vector<double> rhs(n), x0(n), x(n);
                for (int i = 0; i < n; ++i) { rhs[i] = 8 * (i + 1); x0[i] = 4 * (n - i); }
                vs::cfg().max_threads = nt; vs::cfg().prefix.clear(); vs::begin_execution();
                relaxation::gauss_seidel<B> gs(*A, relaxation::gauss_seidel<B>::params(), B::params());
                pv::Vec<double> px(x);
                for (int dir = 0; dir < 2; ++dir) {
                    std::vector<double> ref = x0;
                    relaxation::gauss_seidel<B>::serial_sweep(*A, rhs, ref, dir == 0);
                    XRes R = explore_all(x, x0, hvec(ref), [&]{ if (dir == 0) gs.forward->sweep(rhs, px); else gs.backward->sweep(rhs, px); }, cap);
                    account(R, key);
                    if (R.st.executions > 1) vf::nontrivial(vf::hstr(key + (dir ? "b" : "f")));
                    if (R.bad) vf::fail(dir == 0 ? "gs.explore.forward_differs_from_serial" : "gs.explore.backward_differs_from_serial", key,
                                        vf::KS() << "A=" << mk::show(D) << " rhs=(" << vshow(rhs) << ") x0=(" << vshow(x0) << ") serial x=(" << vshow(ref) << ") but " << R.what
                                                 << " ; " << R.st.executions << " executions, " << R.st.outcomes.size() << " distinct outcomes");
                }
                vs::cfg().max_threads = 1;
            }
        }
        vf::space(vf::KS() << "GS schedule exploration: " << ((n == 4 && vf::quick()) ? "symmetric + every 64th" : "all") << " patterns " << n << "x" << n << ", all interleavings at element-access granularity, threads "
                           << ((n == 4 && vf::quick()) ? "{4}" : "{4,5}"));
    }
}

static void run_explore_ilu() {
    long long cap = 200000;
    for (int n = 2; n <= 4; ++n) {
        int nb = n * (n - 1) / 2;
        for (uint64_t lt = 0; lt < (1ull << nb); ++lt) for (uint64_t ut = 0; ut < (1ull << nb); ++ut) {
            if (n == 4 && vf::quick() && ((lt * 64 + ut) % 8) != 5) continue;
            if (!vf::take([&]{ return std::string(vf::KS() << "xilu|" << n << "|" << lt << "|" << ut); })) continue;
            std::string key = vf::KS() << "xilu|" << n << "|" << lt << "|" << ut;
            mk::Dense<double> L(n, n), U(n, n);
            int b = 0;
            for (int i = 0; i < n; ++i) for (int j = 0; j < i; ++j, ++b) {
                if (mk::bit(lt, b)) { L.st(i, j) = 1; L(i, j) = 1 + (i + 2 * j) % 3; }
                if (mk::bit(ut, b)) { U.st(j, i) = 1; U(j, i) = -1 - (2 * i + j) % 3; }
            }
            auto Lm = mk::to_crs<double>(L); auto Um = mk::to_crs<double>(U);
            auto Dv = std::make_shared< backend::numa_vector<double> >(n);
            for (int i = 0; i < n; ++i) (*Dv)[i] = (i & 1) ? 0.5 : 2.0;
            std::vector<double> x0(n), x(n);
            for (int i = 0; i < n; ++i) x0[i] = 16 * (i + 1);
            typedef relaxation::detail::ilu_solve<B> Solve;
            // serial reference
            std::vector<double> ref = x0;
            { vs::cfg().max_threads = 1; Solve::params p; p.serial = true; Solve s(Lm, Um, Dv, p); s.solve(ref); }
            vs::cfg().max_threads = 4; vs::cfg().prefix.clear(); vs::begin_execution();
            Solve::params p; p.serial = false;
            Solve s(Lm, Um, Dv, p);
            pv::Vec<double> px(x);
            XRes R = explore_all(x, x0, hvec(ref), [&]{ s.solve(px); }, cap);
            account(R, key);
            if (R.st.executions > 1) vf::nontrivial(vf::hstr(key));
            if (R.bad) vf::fail("ilu.explore.differs_from_serial", key, vf::KS() << "L=" << mk::show(L) << " U=" << mk::show(U) << " serial x=(" << vshow(ref) << ") but " << R.what);
            vs::cfg().max_threads = 1;
        }
        vf::space(vf::KS() << "ILU triangular solve exploration: " << ((n == 4 && vf::quick()) ? "every 8th of " : "all ") << "pairs of strictly lower/upper patterns " << n << "x" << n << ", all interleavings, 4 threads");
    }
}

// (K) critical sections: every entry order must give the same (max-type) or rounding-equivalent (sum-type) result
static void run_explore_critical() {
    for (uint64_t off = 0; off < 64; ++off) {
        uint64_t mask = with_diag(3, off);
        if (!vf::take([&]{ return std::string(vf::KS() << "xcrit|3|" << mask); })) continue;
        std::string key = vf::KS() << "xcrit|3|" << mask;
        auto D = gs_matrix(3, mask, 2);
        auto A = mk::to_crs<double>(D);
        for (int nt : {2, 3, 4}) {
            vs::cfg().max_threads = 1;
            double g1 = backend::spectral_radius<true>(*A, 0);
            vs::cfg().max_threads = nt;
            double got = 0; bool bad = false; std::vector<int> badc; double badv = 0;
            std::map<uint64_t, int> pw;
            auto st = vs::explore([&]() -> uint64_t { got = backend::spectral_radius<true>(*A, 0); uint64_t h; std::memcpy(&h, &got, 8); return h; }, -1, 100000,
                                  [&](const std::vector<int> &ch, uint64_t) { if (got != g1 && !bad) { bad = true; badc = ch; badv = got; } });
            vf::S().states += st.states; vf::S().transitions += st.transitions + st.executions; vf::count("executions", st.executions);
            if (st.executions > 1) vf::nontrivial(vf::hstr(key + std::to_string(nt)));
            if (bad) vf::fail("critical.gershgorin_order_dependent", key, vf::KS() << "nt=" << nt << " schedule [" << cshow(badc) << "] gives " << badv << " serial " << g1);
            // power method: same nt, all critical-section entry orders: estimates agree to summation-order rounding
            double lo = 1e300, hi = -1e300;
            auto st2 = vs::explore([&]() -> uint64_t { got = backend::spectral_radius<true>(*A, 3); lo = std::min(lo, got); hi = std::max(hi, got); uint64_t h; std::memcpy(&h, &got, 8); return h; }, 0, 100000);
            vf::S().states += st2.states; vf::S().transitions += st2.transitions + st2.executions; vf::count("executions", st2.executions);
            if (st2.capped) vf::cap("power-method critical-order exploration capped");
            // 3 power iterations, each: n-term sums reordered across nt partial sums, then a division by sqrt: relative effect <= ~ (n + nt) * 3 * 4 eps, conditioned by the normalisation
            double tol = 64 * 3 * (3 + nt) * 2.2e-16 * std::max(1.0, std::abs(hi));
            if (hi - lo > tol) vf::fail("critical.power_method_order_dependent", key, vf::KS() << "nt=" << nt << " estimates range [" << lo << "," << hi << "] over " << st2.executions << " schedules");
        }
        vs::cfg().max_threads = 1;
    }
    vf::space("critical-section orders: spectral radius (Gershgorin: all interleavings; power method: all non-preemptive schedules = all critical-section entry orders) on all 3x3 patterns, threads {2,3,4}");
}

int main(int argc, char **argv) {
    vf::init(argc, argv, "C09");
    vf::sample_str("static: A=" + mk::show(gs_matrix(3, with_diag(3, 0x2), 0)) + " threads 4: levels of rows read from gauss_seidel::parallel_sweep::tasks/ord");
    vf::sample_str("explore: A=" + mk::show(gs_matrix(3, with_diag(3, 0x15), 1)) + " rhs=(8,16,24) x0=(12,8,4), 4 fibers, every element access a scheduling point, oracle = serial sweep bitwise");
    if (vf::section("sgs") || vf::section("stri")) run_static();
    if (vf::section("xgs")) run_explore_gs();
    if (vf::section("xilu")) run_explore_ilu();
    if (vf::section("xcrit")) run_explore_critical();
    return vf::finish();
}
