// C11 unit "block" -- the distributed matrix algebra with b x b block VALUES (static_matrix<double,2,2>, vectors of 2x1 blocks).
// Messages that carry matrix values (transpose, remote-row exchange inside product) use an MPI datatype derived from the block
// type; messages that carry vector values use the one of the N x 1 block.  Every entry is a small integer, so all sums and
// products are exact and the comparison with the dense serial result is ==.
// Space: block shapes {3x3, 4x3, 3x5, 5x4} x 5 pattern families x rank counts 1..3 x every row composition x {balanced, every
// (k=2), reversed-proportional} column partitions (ranks owning nothing included) x 3 fixed schedules (rank order x eager/late
// completion x reduction order).  Oracles: transpose (with block adjoint), A*A^T, A^T*A, spmv, residual, inner product, sizes.
#include <mpi.h>
#include <amgcl/backend/builtin.hpp>
#include <amgcl/value_type/static_matrix.hpp>
#include <amgcl/adapter/crs_tuple.hpp>
#include <amgcl/mpi/util.hpp>
#include <amgcl/mpi/distributed_matrix.hpp>
#include <amgcl/mpi/inner_product.hpp>
#include <Eigen/Dense>
#include <functional>
#include "vf.hpp"
#include "vsched.hpp"

using namespace amgcl;
typedef static_matrix<double, 2, 2> Blk;
typedef static_matrix<double, 2, 1> Rhs;
typedef backend::builtin<Blk> BB;
typedef backend::crs<Blk> Crs;
typedef mpi::distributed_matrix<BB> DM;
typedef Eigen::MatrixXd Mat;

struct Env { int policy, send_mode, recv_mode; bool reverse; const char *name; int threads; };
// the last environment gives every rank an OpenMP team of 3 (fibers inside the rank fiber) under the reverse policy: the chunk of
// the highest thread runs first, so anything a loop shares between its iterations by mistake is seen in the "wrong" order
static const Env ENVS[] = {{0,0,0,false,"fifo/eager",1}, {1,1,1,true,"reverse/late",1}, {2,1,0,false,"preempt-always/late-send",1}, {1,0,0,false,"reverse/eager/3-threads-per-rank",3}};
static void set_env(const Env &e) {
    vs::cfg().default_policy = e.policy; vs::cfg().max_threads = e.threads; vs::cfg().prefix.clear();
    mm::cfg().send_mode = e.send_mode; mm::cfg().recv_mode = e.recv_mode; mm::cfg().reduce_reverse = e.reverse; mm::cfg().explore_completion = false;
    vs::begin_execution();
}

typedef std::vector<int> Part;
static std::string pshow(const Part &p) { vf::KS k; for (size_t i = 0; i < p.size(); ++i) k << (i ? "," : "") << p[i]; return k; }
static void compositions(int n, int k, std::vector<Part> &out) {
    if (k == 1) { out.push_back({0, n}); return; }
    Part cut(k + 1, 0); cut[k] = n;
    std::function<void(int)> rec = [&](int i) { if (i == k) { out.push_back(cut); return; } for (int c = cut[i-1]; c <= n; ++c) { cut[i] = c; rec(i + 1); } };
    rec(1);
}

struct Sys { int m, n; std::vector<std::vector<char>> st; std::vector<std::vector<Blk>> a; std::string name; };
static Sys make(int m, int n, int fam) {
    Sys s; s.m = m; s.n = n; s.name = std::string(vf::KS() << m << "x" << n << "f" << fam);
    s.st.assign(m, std::vector<char>(n, 0)); s.a.assign(m, std::vector<Blk>(n, math::zero<Blk>()));
    for (int i = 0; i < m; ++i) for (int j = 0; j < n; ++j) {
        bool on = false;
        switch (fam) {
            case 0: on = true; break;                                   // full
            case 1: on = std::abs(i - j) <= 1; break;                   // band
            case 2: on = i == 0 || j == 0 || i == j; break;             // arrow
            case 3: on = j <= i && (i + j) % 3 != 1; break;             // lower, structurally non-symmetric, some rows/columns empty
            default: on = (i + 2 * j) % 3 == 0; break;                  // scattered
        }
        if (!on) continue;
        Blk b; b(0, 0) = 1 + (i + j) % 3; b(0, 1) = -(1 + (2 * i + j) % 4); b(1, 0) = (i * 3 + j) % 5 - 2; b(1, 1) = 2 + (i + 3 * j) % 3;
        s.st[i][j] = 1; s.a[i][j] = b;
    }
    return s;
}
static Mat dense(const Sys &s) { Mat D = Mat::Zero(2 * s.m, 2 * s.n); for (int i = 0; i < s.m; ++i) for (int j = 0; j < s.n; ++j) if (s.st[i][j]) for (int p = 0; p < 2; ++p) for (int q = 0; q < 2; ++q) D(2 * i + p, 2 * j + q) = s.a[i][j](p, q); return D; }

struct Out { Mat T, AAt, AtA; std::vector<double> y, r; std::vector<double> ip; std::vector<long> gr, gc, gnnz; std::vector<std::string> err, exc; };

static void assemble(const DM &D, int rbeg, Mat &G, std::vector<std::string> &err, const char *what) {
    const Crs &L = *D.local(); const Crs &R = *D.remote();
    ptrdiff_t shift = D.loc_col_shift();
    auto put = [&](size_t i, long c, const Blk &v) {
        if (c < 0 || c >= G.cols() / 2 || rbeg + (long)i >= G.rows() / 2) { err.push_back(std::string(what) + ": column/row out of range"); return; }
        for (int p = 0; p < 2; ++p) for (int q = 0; q < 2; ++q) G(2 * (rbeg + i) + p, 2 * c + q) += v(p, q);
    };
    for (size_t i = 0; i < L.nrows; ++i) {
        for (auto j = L.ptr[i]; j < L.ptr[i + 1]; ++j) put(i, L.col[j] + shift, L.val[j]);
        for (auto j = R.ptr[i]; j < R.ptr[i + 1]; ++j) { long c = R.col[j]; if (c >= shift && c < shift + (long)L.ncols) err.push_back(std::string(what) + ": remote part holds a locally owned column"); put(i, c, R.val[j]); }
    }
}

static void rank_body(int rank, const Sys &s, const Part &rp, const Part &cp, Out &o) {
    try {
        mpi::communicator comm(MPI_COMM_WORLD);
        int rb = rp[rank], re = rp[rank + 1], cb = cp[rank], ce = cp[rank + 1];
        std::vector<ptrdiff_t> ptr(1, 0), col; std::vector<Blk> val;
        for (int i = rb; i < re; ++i) { for (int j = 0; j < s.n; ++j) if (s.st[i][j]) { col.push_back(j); val.push_back(s.a[i][j]); } ptr.push_back((ptrdiff_t)col.size()); }
        auto A = std::make_shared<DM>(comm, std::make_tuple((size_t)(re - rb), ptr, col, val), (ptrdiff_t)(ce - cb));
        o.gr[rank] = A->glob_rows(); o.gc[rank] = A->glob_cols(); o.gnnz[rank] = A->glob_nonzeros();
        auto At = mpi::transpose(*A); assemble(*At, cb, o.T, o.err, "transpose");
        { auto P1 = mpi::product(*A, *At); assemble(*P1, rb, o.AAt, o.err, "A*At"); }
        { auto P2 = mpi::product(*At, *A); assemble(*P2, cb, o.AtA, o.err, "At*A"); }
        A->move_to_backend();
        backend::numa_vector<Rhs> x(ce - cb), y(re - rb), f(re - rb), r(re - rb);
        for (int j = cb; j < ce; ++j) { x[j - cb](0) = 1 + j % 3; x[j - cb](1) = (j % 2) ? -2 : 1; }
        for (int i = rb; i < re; ++i) { f[i - rb](0) = 3 - i; f[i - rb](1) = i % 4; y[i - rb] = math::constant<Rhs>(7); }
        backend::spmv(2.0, *A, x, -1.0, y);
        backend::residual(f, *A, x, r);
        for (int i = rb; i < re; ++i) for (int p = 0; p < 2; ++p) { o.y[2 * i + p] = y[i - rb](p); o.r[2 * i + p] = r[i - rb](p); }
        mpi::inner_product ip(comm);
        o.ip[rank] = ip(y, r);
    } catch (const vs::Deadlock &) { throw; }
    catch (const std::exception &e) { o.exc[rank] = e.what(); }
}

static std::string once(const Sys &s, const Part &rp, const Part &cp, const Env &e) {
    int k = (int)rp.size() - 1;
    Out o; o.T = Mat::Zero(2 * s.n, 2 * s.m); o.AAt = Mat::Zero(2 * s.m, 2 * s.m); o.AtA = Mat::Zero(2 * s.n, 2 * s.n);
    o.y.assign(2 * s.m, 0); o.r.assign(2 * s.m, 0); o.ip.assign(k, 0); o.gr.assign(k, 0); o.gc.assign(k, 0); o.gnnz.assign(k, 0); o.exc.assign(k, "");
    set_env(e);
    try { mm::run(k, [&](int r) { rank_body(r, s, rp, cp, o); }); if (e.threads > 1) vf::count("omp_teams_inside_ranks", vs::trace().teams); }
    catch (const vs::Deadlock &d) { return std::string("DEADLOCK: ") + d.what() + mm::where_all(); }
    catch (const std::exception &x) { return std::string("exception escaped: ") + x.what(); }
    for (int r = 0; r < k; ++r) if (!o.exc[r].empty()) return vf::KS() << "exception on rank " << r << ": " << o.exc[r];
    if (!o.err.empty()) return o.err[0];
    Mat D = dense(s);
    long nnz = 0; for (int i = 0; i < s.m; ++i) for (int j = 0; j < s.n; ++j) nnz += s.st[i][j];
    for (int r = 0; r < k; ++r) if (o.gr[r] != s.m || o.gc[r] != s.n || o.gnnz[r] != nnz) return vf::KS() << "rank " << r << " reports global size " << o.gr[r] << "x" << o.gc[r] << " nnz " << o.gnnz[r] << ", matrix is " << s.m << "x" << s.n << " nnz " << nnz;
    auto cmp = [&](const Mat &got, const Mat &want, const char *what) -> std::string {
        for (int i = 0; i < want.rows(); ++i) for (int j = 0; j < want.cols(); ++j) if (got(i, j) != want(i, j))
            return vf::KS() << what << ": scalar entry (" << i << "," << j << ") of block (" << i / 2 << "," << j / 2 << ") is " << got(i, j) << ", serial result " << want(i, j);
        return ""; };
    std::string v;
    if (!(v = cmp(o.T, D.transpose(), "transpose")).empty()) return v;
    if (!(v = cmp(o.AAt, D * D.transpose(), "A*A^T")).empty()) return v;
    if (!(v = cmp(o.AtA, D.transpose() * D, "A^T*A")).empty()) return v;
    Eigen::VectorXd x(2 * s.n), f(2 * s.m), y0 = Eigen::VectorXd::Constant(2 * s.m, 7.0);
    for (int j = 0; j < s.n; ++j) { x(2 * j) = 1 + j % 3; x(2 * j + 1) = (j % 2) ? -2 : 1; }
    for (int i = 0; i < s.m; ++i) { f(2 * i) = 3 - i; f(2 * i + 1) = i % 4; }
    Eigen::VectorXd yw = 2.0 * D * x - y0, rw = f - D * x;
    for (int i = 0; i < 2 * s.m; ++i) { if (o.y[i] != yw(i)) return vf::KS() << "spmv: component " << i << " is " << o.y[i] << ", serial " << yw(i); if (o.r[i] != rw(i)) return vf::KS() << "residual: component " << i << " is " << o.r[i] << ", serial " << rw(i); }
    double ipw = yw.dot(rw);
    for (int r = 0; r < k; ++r) if (o.ip[r] != ipw) return vf::KS() << "inner product on rank " << r << " is " << o.ip[r] << ", serial " << ipw;
    return "";
}

int main(int argc, char **argv) {
    vf::init(argc, argv, "C11");
    vf::sample_str("block case: 4x3 arrow matrix of 2x2 integer blocks, rows 0,1,1,4 over 3 ranks (rank 1 owns nothing), columns 0,2,3,3: transpose / A*A^T / A^T*A / spmv / residual / inner product == dense serial result");
    if (vf::section("blk")) {
        const int shapes[4][2] = {{3, 3}, {4, 3}, {3, 5}, {5, 4}};
        for (auto &sh : shapes) for (int fam = 0; fam < 5; ++fam) {
            Sys s = make(sh[0], sh[1], fam);
            for (int k = 1; k <= 3; ++k) {
                std::vector<Part> rps; compositions(s.m, k, rps);
                for (auto &rp : rps) {
                    std::vector<Part> cps;
                    { Part bal(k + 1); for (int i = 0; i <= k; ++i) bal[i] = (int)((long)s.n * i / k); cps.push_back(bal); }
                    if (k == 2) compositions(s.n, 2, cps);
                    if (k == 3) { Part q(k + 1, 0); long tot = 0; for (int i = 0; i < k; ++i) { tot += rp[k - i] - rp[k - i - 1]; q[i + 1] = (int)(tot * s.n / std::max(1, s.m)); } q[k] = s.n; cps.push_back(q); }
                    std::sort(cps.begin(), cps.end()); cps.erase(std::unique(cps.begin(), cps.end()), cps.end());
                    for (auto &cp : cps) {
                        std::string key = vf::KS() << "blk|" << s.name << "|" << k << "|" << pshow(rp) << "|" << pshow(cp);
                        if (!vf::take([&]{ return key; })) continue;
                        for (auto &e : ENVS) {
                            std::string v = once(s, rp, cp, e);
                            vf::count("executions"); vf::S().transitions += 1;
                            if (!v.empty()) { vf::fail("dist.block_values", key, vf::KS() << "schedule " << e.name << ": " << v); break; }
                            if (k == 1) break;
                        }
                        vf::S().states += 1;
                        if (k > 1) vf::nontrivial(vf::hstr(key));
                    }
                }
            }
        }
        vf::space("2x2 block values: 4 block shapes x 5 pattern families x ranks 1..3 x all row compositions x column partitions x 3 schedules");
    }
    return vf::finish();
}
