// C13_solve.hpp -- interface between the enumerating main TU and the template-heavy path TUs of unit "solve".
// A "path" is one way of handing a block-structured scalar system to amgcl.  Every path takes the SCALAR arrays
// (ptr/col/val, f, x0) and returns what amgcl reported plus the solution in scalar layout.
#ifndef VERIF_C13_SOLVE_HPP
#define VERIF_C13_SOLVE_HPP

#define AMGCL_PARAM_UNKNOWN(name) throw std::logic_error(std::string("HARNESS: unknown parameter ") + std::string(name))

#include <vector>
#include <string>
#include <sstream>
#include <stdexcept>
#include <boost/property_tree/ptree.hpp>
#include "C13_common.hpp"

namespace c13 {

typedef boost::property_tree::ptree ptree;

struct Req {
    const sg::Crs<double> *A = nullptr;
    int b = 1;
    std::string coarsening, relax, solver;      // run-time names
    int coarse_enough_nodes = 1;                 // in nodes (block rows); scalar-built hierarchies get this times b
    std::vector<double> f, x0;
    int form = 0;                                // 0: S(rhs, x)    1: S(A, rhs, x) with the user's matrix
    int maxiter = 100;
};
struct Out {
    bool ran = false;                            // false: the path does not offer this configuration at compile time (skipped, counted)
    std::string skipped;
    bool threw = false; std::string what;
    size_t iters = 0; double resid = 0;
    std::vector<double> x;
    int levels = 0;
    std::string opdiff;                          // "" when the level-0 operator held by the solver == the scalar matrix
    std::vector<double> pact;                    // action of the preconditioner on the right-hand side (scalar reference and hybrid path)
    // second call S(A, rhs, x) on the same solver AND the same matrix object after its values were updated in place
    // (diagonal entries times 1.25): filled by the block_solver path for form 1
    bool second = false; size_t iters2 = 0; double resid2 = 0; std::vector<double> x2;
};
typedef Out (*Runner)(const Req &);
struct Path { std::string name; int b; std::string btype; Runner run; };
std::vector<Path> &paths();
struct Registrar { Registrar(const std::string &name, int b, const std::string &btype, Runner r) { paths().push_back(Path{name, b, btype, r}); } };

inline int parse_levels(const std::string &s) {
    auto p = s.find("Number of levels:"); if (p == std::string::npos) return 0;
    return std::atoi(s.c_str() + p + 17);
}
inline ptree base_params(const Req &r, bool scalar_build, bool with_coarsening_type, bool with_relax_type) {
    ptree p;
    if (with_coarsening_type) p.put("precond.coarsening.type", r.coarsening);
    if (with_relax_type) p.put("precond.relax.type", r.relax);
    p.put("solver.type", r.solver);
    p.put("solver.maxiter", r.maxiter);
    p.put("precond.coarse_enough", r.coarse_enough_nodes * (scalar_build ? r.b : 1));
    if (scalar_build && r.coarsening != "ruge_stuben") p.put("precond.coarsening.aggr.block_size", r.b);
    return p;
}

} // namespace c13
#endif
