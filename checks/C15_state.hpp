// C15_state.hpp -- canonical hashes of the mutable members of amgcl solver / preconditioner
// objects.  Compiled with -fno-access-control: private members are read directly.
// Pointers are never hashed; shared vectors are hashed by content, the LGMRES ring buffer by
// the indices of its entries inside outer_v_data.
#ifndef VERIF_C15_STATE_HPP
#define VERIF_C15_STATE_HPP

#include "C15_common.hpp"
#include <amgcl/solver/cg.hpp>
#include <amgcl/solver/bicgstab.hpp>
#include <amgcl/solver/bicgstabl.hpp>
#include <amgcl/solver/gmres.hpp>
#include <amgcl/solver/fgmres.hpp>
#include <amgcl/solver/lgmres.hpp>
#include <amgcl/solver/idrs.hpp>
#include <amgcl/solver/richardson.hpp>
#include <amgcl/solver/preonly.hpp>
#include <amgcl/solver/skyline_lu.hpp>

namespace c15 {

template <class B, class I> void hstate(Hs &h, const amgcl::solver::cg<B, I> &s) { h.sp(s.r); h.sp(s.s); h.sp(s.p); h.sp(s.q); }
template <class B, class I> void hstate(Hs &h, const amgcl::solver::richardson<B, I> &s) { h.sp(s.r); h.sp(s.s); }
template <class B, class I> void hstate(Hs &h, const amgcl::solver::preonly<B, I> &) { h.pod(0); }
template <class B, class I> void hstate(Hs &h, const amgcl::solver::bicgstab<B, I> &s) { h.sp(s.r); h.sp(s.p); h.sp(s.v); h.sp(s.s); h.sp(s.t); h.sp(s.rh); h.sp(s.T); }
template <class B, class I> void hstate(Hs &h, const amgcl::solver::bicgstabl<B, I> &s) {
    h.sp(s.Rt); h.sp(s.X); h.sp(s.B); h.sp(s.T); h.spv(s.R); h.spv(s.U); h.ma(s.MZa); h.ma(s.MZb); h.vec(s.Y0); h.vec(s.YL);
    h.vec(s.qr.tau); h.vec(s.qr.f); h.vec(s.qr.q);
}
template <class B, class I> void hstate(Hs &h, const amgcl::solver::gmres<B, I> &s) { h.ma(s.H); h.vec(s.s); h.vec(s.cs); h.vec(s.sn); h.sp(s.r); h.spv(s.v); }
template <class B, class I> void hstate(Hs &h, const amgcl::solver::fgmres<B, I> &s) { h.ma(s.H); h.vec(s.s); h.vec(s.cs); h.vec(s.sn); h.sp(s.r); h.spv(s.v); h.spv(s.z); }
template <class B, class I> void hstate(Hs &h, const amgcl::solver::lgmres<B, I> &s) {
    h.ma(s.H); h.ma(s.H0); h.vec(s.s); h.vec(s.cs); h.vec(s.sn); h.sp(s.r); h.spv(s.vs); h.spv(s.outer_v_data);
    auto index_of = [&](const std::shared_ptr<typename amgcl::solver::lgmres<B, I>::vector> &p) -> int {
        for (size_t i = 0; i < s.outer_v_data.size(); ++i) if (s.outer_v_data[i] == p) return (int)i;
        for (size_t i = 0; i < s.vs.size(); ++i) if (s.vs[i] == p) return 1000 + (int)i;
        return p ? -2 : -1;
    };
    h.pod(s.outer_v.size()); h.pod(s.outer_v.start);
    for (size_t i = 0; i < s.outer_v.buf.size(); ++i) h.pod(index_of(s.outer_v.buf[i]));
    for (size_t i = 0; i < s.ws.size(); ++i) h.pod(index_of(s.ws[i]));
}
template <class B, class I> void hstate(Hs &h, const amgcl::solver::idrs<B, I> &s) {
    h.ma(s.M); h.vec(s.f); h.vec(s.c); h.sp(s.r); h.sp(s.v); h.sp(s.t); h.sp(s.x_s); h.sp(s.r_s); h.spv(s.G); h.spv(s.U); h.spv(s.P);
}
template <class V, class O> void hstate(Hs &h, const amgcl::solver::skyline_lu<V, O> &s) {
    h.pod(s.n); h.vec(s.perm); h.vec(s.ptr); h.vec(s.L); h.vec(s.U); h.vec(s.D); h.vec(s.y);
}

} // namespace c15
#endif
