// C13 unit "solve", path TUs.  Compiled once per (C13_B in 2,3,4) x (C13_EIGEN in 0,1) x (C13_GROUP in 1..4); every instance
// registers its paths with the main TU (C13_solve_main.cpp).
//   group 1: block        make_solver< amg<builtin<Block>, rt coarsening, rt relaxation>, rt solver<builtin<Block>> > on
//                         adapter::block_matrix<Block>(scalar tuple) with backend::reinterpret_as_rhs<Block> vectors
//            block_solver make_block_solver< same > on the scalar tuple and plain std::vector<double>
//            as_scalar_rt the same solver type with near null-space vectors (b constant-per-component vectors): the run-time
//                         coarsening wrapper then goes through coarsening::as_scalar
//   group 2: as_block     make_solver< amg<builtin<double>, rt coarsening, relaxation::as_block<builtin<Block>, R>::type>, rt solver<builtin<double>> >
//                         R in spai0, damped_jacobi, ilu0, iluk, ilut, ilup, chebyshev   (gauss_seidel and spai1 do not compile under as_block)
//   group 3: hybrid       make_solver< amg<builtin_hybrid<Block>, rt, rt>, rt solver<builtin_hybrid<Block>> > on the scalar tuple, plain vectors
//            mixed_block  single-precision block preconditioner amg<builtin<FBlock>,...> under the double-precision block solver
//            hybrid_mixed builtin_hybrid<FBlock> preconditioner under a builtin_hybrid<Block> solver (tutorial/5.Nullspace/nullspace_hybrid.cpp)
//   group 4: as_scalar_ct amg<builtin<Block>, coarsening::as_scalar<C>::type, rt relaxation>, C in aggregation, smoothed_aggregation, smoothed_aggr_emin
#include "C13_solve.hpp"
#include <tuple>
#include <amgcl/backend/builtin.hpp>
#include <amgcl/backend/builtin_hybrid.hpp>
#include <amgcl/value_type/static_matrix.hpp>
#if C13_EIGEN
#  include <amgcl/value_type/eigen.hpp>
#endif
#include <amgcl/adapter/crs_tuple.hpp>
#include <amgcl/adapter/block_matrix.hpp>
#include <amgcl/make_solver.hpp>
#include <amgcl/make_block_solver.hpp>
#include <amgcl/amg.hpp>
#include <amgcl/coarsening/runtime.hpp>
#include <amgcl/relaxation/runtime.hpp>
#include <amgcl/relaxation/as_block.hpp>
#include <amgcl/coarsening/as_scalar.hpp>
#include <amgcl/solver/runtime.hpp>
#include <amgcl/relaxation/spai0.hpp>
#include <amgcl/relaxation/damped_jacobi.hpp>
#include <amgcl/relaxation/ilu0.hpp>
#include <amgcl/relaxation/iluk.hpp>
#include <amgcl/relaxation/ilut.hpp>
#include <amgcl/relaxation/ilup.hpp>
#include <amgcl/relaxation/chebyshev.hpp>
#include <amgcl/coarsening/aggregation.hpp>
#include <amgcl/coarsening/smoothed_aggregation.hpp>
#include <amgcl/coarsening/smoothed_aggr_emin.hpp>

using namespace amgcl;
namespace {

#if C13_EIGEN
typedef Eigen::Matrix<double, C13_B, C13_B> Block;
typedef Eigen::Matrix<float, C13_B, C13_B> FBlock;
static const char *BTYPE = "e";
#else
typedef static_matrix<double, C13_B, C13_B> Block;
typedef static_matrix<float, C13_B, C13_B> FBlock;
static const char *BTYPE = "s";
#endif
static const int b = C13_B;
typedef backend::builtin<Block> BB;
typedef backend::builtin<FBlock> FB;
typedef backend::builtin<double> SB;
typedef backend::builtin_hybrid<Block> HB;
typedef backend::builtin_hybrid<FBlock> HFB;
using c13::Req; using c13::Out; using c13::ptree;

// dense n x n image of whatever level-0 matrix the solver holds, compared with the scalar matrix by ==
template <class M>
std::string opdiff(const M &L, const sg::Crs<double> &A) {
    typedef typename backend::value_type<M>::type V;
    const int br = math::static_rows<V>::value, bc = math::static_cols<V>::value;
    int n = A.n;
    std::ostringstream e;
    if ((int)backend::rows(L) * br != n || (int)backend::cols(L) * bc != n) { e << "level-0 matrix is " << backend::rows(L) * br << "x" << backend::cols(L) * bc << " scalars, system has " << n; return e.str(); }
    std::vector<double> D((size_t)n * n, 0.0), R((size_t)n * n, 0.0);
    typedef typename math::scalar_of<V>::type Sc;      // a single-precision formulation holds the entries rounded to float
    for (int i = 0; i < n; ++i) for (ptrdiff_t j = A.ptr[i]; j < A.ptr[i + 1]; ++j) R[(size_t)i * n + A.col[j]] += (double)(Sc)A.val[j];
    for (size_t I = 0; I < backend::rows(L); ++I) for (auto a = backend::row_begin(L, I); a; ++a) {
        V v = a.value();
        if constexpr (math::static_rows<V>::value > 1) { for (int p = 0; p < br; ++p) for (int q = 0; q < bc; ++q) D[(size_t)(I * br + p) * n + (a.col() * bc + q)] += (double)v(p, q); }
        else D[(size_t)I * n + a.col()] += (double)v;
    }
    for (int i = 0; i < n; ++i) for (int j = 0; j < n; ++j) if (!(D[(size_t)i * n + j] == R[(size_t)i * n + j])) { e << "level-0 operator entry (" << i << "," << j << ") = " << D[(size_t)i * n + j] << ", scalar matrix has " << R[(size_t)i * n + j]; return e.str(); }
    return "";
}
template <class S> int levels_of(const S &s) { std::ostringstream os; os << s.precond(); return c13::parse_levels(os.str()); }

struct Arrays { int n; std::vector<ptrdiff_t> ptr, col; std::vector<double> val; explicit Arrays(const sg::Crs<double> &A) : n(A.n), ptr(A.ptr), col(A.col), val(A.val) {} };

template <class F> Out guarded(F &&body) {
    Out o; o.ran = true;
    try { body(o); }
    catch (const std::exception &e) { o.threw = true; o.what = e.what(); }
    return o;
}

#if C13_GROUP == 1
typedef amg<BB, runtime::coarsening::wrapper, runtime::relaxation::wrapper> AMG1;
typedef make_solver<AMG1, runtime::solver::wrapper<BB>> S1;
typedef make_block_solver<AMG1, runtime::solver::wrapper<BB>> S2;

Out run_block_impl(const Req &r, bool nullspace) {
    return guarded([&](Out &o) {
        Arrays a(*r.A); auto At = std::tie(a.n, a.ptr, a.col, a.val);
        auto Ab = adapter::block_matrix<Block>(At);
        ptree p = c13::base_params(r, false, true, true);
        std::vector<double> NS;
        if (nullspace) {
            if (r.coarsening == "ruge_stuben") { o.ran = false; o.skipped = "as_scalar is not used for ruge_stuben"; return; }
            NS.assign((size_t)a.n * b, 0.0); for (int i = 0; i < a.n; ++i) NS[(size_t)i * b + i % b] = 1.0;
            p.put("precond.coarsening.nullspace.cols", b); p.put("precond.coarsening.nullspace.rows", a.n); p.put("precond.coarsening.nullspace.B", NS.data());
            p.put("precond.coarsening.aggr.block_size", b);
        }
        S1 S(Ab, p);
        o.levels = levels_of(S); o.opdiff = opdiff(S.system_matrix(), *r.A);
        o.x = r.x0;
        auto F = backend::reinterpret_as_rhs<Block>(r.f); auto X = backend::reinterpret_as_rhs<Block>(o.x);
        if (r.form == 0) std::tie(o.iters, o.resid) = S(F, X); else std::tie(o.iters, o.resid) = S(Ab, F, X);
    });
}
Out run_block(const Req &r) { return run_block_impl(r, false); }
Out run_as_scalar_rt(const Req &r) { return run_block_impl(r, true); }
Out run_block_solver(const Req &r) {
    return guarded([&](Out &o) {
        Arrays a(*r.A); auto At = std::tie(a.n, a.ptr, a.col, a.val);
        ptree p = c13::base_params(r, false, true, true);
        S2 S(At, p);
        { std::ostringstream os; os << S; o.levels = c13::parse_levels(os.str()); }
        o.opdiff = opdiff(S.system_matrix(), *r.A);
        o.x = r.x0;
        if (r.form == 0) std::tie(o.iters, o.resid) = S(r.f, o.x); else std::tie(o.iters, o.resid) = S(At, r.f, o.x);
        if (r.form == 1 && r.maxiter > 2) {
            // the user updates the coefficients of the SAME matrix object and solves again (time stepping)
            for (int i = 0; i < a.n; ++i) for (ptrdiff_t j = a.ptr[i]; j < a.ptr[i + 1]; ++j) if (a.col[j] == i) a.val[j] *= 1.25;
            o.x2 = r.x0;
            std::tie(o.iters2, o.resid2) = S(At, r.f, o.x2);
            o.second = true;
        }
    });
}
#if !C13_EIGEN
// the same wrapper called with vectors the user already keeps in block form (std::vector of b x 1 blocks): the wrapper
// reinterprets them, every reduction over them (norm of the right-hand side!) must see all n scalars
Out run_block_solver_bv(const Req &r) {
    typedef typename math::rhs_of<Block>::type RhsB;
    return guarded([&](Out &o) {
        Arrays a(*r.A); auto At = std::tie(a.n, a.ptr, a.col, a.val);
        ptree p = c13::base_params(r, false, true, true);
        S2 S(At, p);
        { std::ostringstream os; os << S; o.levels = c13::parse_levels(os.str()); }
        o.opdiff = opdiff(S.system_matrix(), *r.A);
        const int nb = a.n / b;
        std::vector<RhsB> F(nb), X(nb);
        for (int i = 0; i < nb; ++i) for (int q = 0; q < b; ++q) { F[i](q) = r.f[i * b + q]; X[i](q) = r.x0[i * b + q]; }
        if (r.form == 0) std::tie(o.iters, o.resid) = S(F, X); else std::tie(o.iters, o.resid) = S(At, F, X);
        o.x.assign(a.n, 0.0);
        for (int i = 0; i < nb; ++i) for (int q = 0; q < b; ++q) o.x[i * b + q] = X[i](q);
    });
}
c13::Registrar r1b("block_solver_bv", b, BTYPE, run_block_solver_bv);
#endif
c13::Registrar r1("block", b, BTYPE, run_block), r2("block_solver", b, BTYPE, run_block_solver), r3("as_scalar_rt", b, BTYPE, run_as_scalar_rt);
#endif

#if C13_GROUP == 2
template <template <class> class R> Out run_as_block_with(const Req &r) {
    typedef make_solver<amg<SB, runtime::coarsening::wrapper, relaxation::as_block<BB, R>::template type>, runtime::solver::wrapper<SB>> S3;
    return guarded([&](Out &o) {
        Arrays a(*r.A); auto At = std::tie(a.n, a.ptr, a.col, a.val);
        ptree p = c13::base_params(r, true, true, false);
        S3 S(At, p);
        o.levels = levels_of(S); o.opdiff = opdiff(S.system_matrix(), *r.A);
        o.x = r.x0;
        if (r.form == 0) std::tie(o.iters, o.resid) = S(r.f, o.x); else std::tie(o.iters, o.resid) = S(At, r.f, o.x);
    });
}
Out run_as_block(const Req &r) {
    if (r.relax == "spai0") return run_as_block_with<relaxation::spai0>(r);
    if (r.relax == "damped_jacobi") return run_as_block_with<relaxation::damped_jacobi>(r);
    if (r.relax == "ilu0") return run_as_block_with<relaxation::ilu0>(r);
    if (r.relax == "iluk") return run_as_block_with<relaxation::iluk>(r);
    if (r.relax == "ilut") return run_as_block_with<relaxation::ilut>(r);
    if (r.relax == "ilup") return run_as_block_with<relaxation::ilup>(r);
    if (r.relax == "chebyshev") return run_as_block_with<relaxation::chebyshev>(r);
    Out o; o.ran = false; o.skipped = "relaxation::as_block<" + r.relax + "> does not compile"; return o;
}
c13::Registrar r4("as_block", b, BTYPE, run_as_block);
#if !C13_EIGEN
// the as_block wrapper with a SINGLE precision block backend inside the double precision hierarchy (the wrapper reinterprets the
// enclosing backend's double vectors as blocks for its own backend): pointwise smoothers only
template <template <class> class R> Out run_as_block_mixed_with(const Req &r) {
    typedef make_solver<amg<SB, runtime::coarsening::wrapper, relaxation::as_block<FB, R>::template type>, runtime::solver::wrapper<SB>> S3m;
    return guarded([&](Out &o) {
        Arrays a(*r.A); auto At = std::tie(a.n, a.ptr, a.col, a.val);
        ptree p = c13::base_params(r, true, true, false);
        S3m S(At, p);
        o.levels = levels_of(S); o.opdiff = opdiff(S.system_matrix(), *r.A);
        o.x = r.x0;
        if (r.form == 0) std::tie(o.iters, o.resid) = S(r.f, o.x); else std::tie(o.iters, o.resid) = S(At, r.f, o.x);
    });
}
Out run_as_block_mixed(const Req &r) {
    if (r.relax == "spai0") return run_as_block_mixed_with<relaxation::spai0>(r);
    if (r.relax == "damped_jacobi") return run_as_block_mixed_with<relaxation::damped_jacobi>(r);
    Out o; o.ran = false; o.skipped = "as_block with a single precision block backend: pointwise smoothers only"; return o;
}
c13::Registrar r4m("as_block_mixed", b, BTYPE, run_as_block_mixed);
#endif
#endif

#if C13_GROUP == 3
Out run_hybrid(const Req &r) {
    typedef make_solver<amg<HB, runtime::coarsening::wrapper, runtime::relaxation::wrapper>, runtime::solver::wrapper<HB>> S5;
    return guarded([&](Out &o) {
        Arrays a(*r.A); auto At = std::tie(a.n, a.ptr, a.col, a.val);
        ptree p = c13::base_params(r, true, true, true);
        S5 S(At, p);
        o.levels = levels_of(S); o.opdiff = opdiff(S.system_matrix(), *r.A);
        { std::vector<double> z(r.f.size(), 0.0); S.precond().apply(r.f, z); o.pact = z; }
        o.x = r.x0;
        if (r.form == 0) std::tie(o.iters, o.resid) = S(r.f, o.x); else std::tie(o.iters, o.resid) = S(At, r.f, o.x);
    });
}
#if !C13_EIGEN      // Eigen refuses to mix float and double blocks (static assertion YOU_MIXED_DIFFERENT_NUMERIC_TYPES): no mixed-precision Eigen paths
Out run_hybrid_mixed(const Req &r) {
    typedef make_solver<amg<HFB, runtime::coarsening::wrapper, runtime::relaxation::wrapper>, runtime::solver::wrapper<HB>> S6;
    return guarded([&](Out &o) {
        Arrays a(*r.A); auto At = std::tie(a.n, a.ptr, a.col, a.val);
        ptree p = c13::base_params(r, true, true, true);
        S6 S(At, p);
        o.levels = levels_of(S); o.opdiff = opdiff(S.system_matrix(), *r.A);
        o.x = r.x0;
        if (r.form == 0) std::tie(o.iters, o.resid) = S(r.f, o.x); else std::tie(o.iters, o.resid) = S(At, r.f, o.x);
    });
}
Out run_mixed_block(const Req &r) {
    typedef make_solver<amg<FB, runtime::coarsening::wrapper, runtime::relaxation::wrapper>, runtime::solver::wrapper<BB>> S7;
    return guarded([&](Out &o) {
        Arrays a(*r.A); auto At = std::tie(a.n, a.ptr, a.col, a.val);
        auto Ab = adapter::block_matrix<Block>(At);
        ptree p = c13::base_params(r, false, true, true);
        S7 S(Ab, p);
        o.levels = levels_of(S); o.opdiff = opdiff(S.system_matrix(), *r.A);
        o.x = r.x0;
        auto F = backend::reinterpret_as_rhs<Block>(r.f); auto X = backend::reinterpret_as_rhs<Block>(o.x);
        if (r.form == 0) std::tie(o.iters, o.resid) = S(F, X); else std::tie(o.iters, o.resid) = S(Ab, F, X);
    });
}
c13::Registrar r6("hybrid_mixed", b, BTYPE, run_hybrid_mixed), r7("mixed_block", b, BTYPE, run_mixed_block);
#endif
c13::Registrar r5("hybrid", b, BTYPE, run_hybrid);
#endif

#if C13_GROUP == 4
template <template <class> class C> Out run_as_scalar_with(const Req &r) {
    typedef make_solver<amg<BB, coarsening::as_scalar<C>::template type, runtime::relaxation::wrapper>, runtime::solver::wrapper<BB>> S4;
    return guarded([&](Out &o) {
        Arrays a(*r.A); auto At = std::tie(a.n, a.ptr, a.col, a.val);
        auto Ab = adapter::block_matrix<Block>(At);
        ptree p = c13::base_params(r, false, false, true);
        p.put("precond.coarsening.aggr.block_size", b);
        S4 S(Ab, p);
        o.levels = levels_of(S); o.opdiff = opdiff(S.system_matrix(), *r.A);
        o.x = r.x0;
        auto F = backend::reinterpret_as_rhs<Block>(r.f); auto X = backend::reinterpret_as_rhs<Block>(o.x);
        if (r.form == 0) std::tie(o.iters, o.resid) = S(F, X); else std::tie(o.iters, o.resid) = S(Ab, F, X);
    });
}
Out run_as_scalar_ct(const Req &r) {
    if (r.coarsening == "aggregation") return run_as_scalar_with<coarsening::aggregation>(r);
    if (r.coarsening == "smoothed_aggregation") return run_as_scalar_with<coarsening::smoothed_aggregation>(r);
    if (r.coarsening == "smoothed_aggr_emin") return run_as_scalar_with<coarsening::smoothed_aggr_emin>(r);
    Out o; o.ran = false; o.skipped = "as_scalar<" + r.coarsening + "> not instantiated (ruge_stuben has no block use)"; return o;
}
c13::Registrar r8("as_scalar_ct", b, BTYPE, run_as_scalar_ct);
#endif

} // namespace
