#!/usr/bin/env python3
"""C14_scan.py -- enumerate every parameter structure of amgcl FROM THE SOURCE.

  C14_scan.py [--repo /repo] --write      regenerate checks/C14_table.inc
  C14_scan.py [--repo /repo] --check      exit 0 iff checks/C14_table.inc is what --write would produce
  C14_scan.py [--repo /repo] --list       human readable listing with line numbers (not part of the table)

A "parameter structure" is every `struct <x>params` (params, nullspace_params, vexcl_params,
empty_params ...) defined in a header under <repo>/amgcl.  For each one the scanner records

  * its data members (statements at brace depth 1 of the body that are declarations),
  * the names in AMGCL_PARAMS_IMPORT_VALUE/CHILD, AMGCL_PARAMS_EXPORT_VALUE/CHILD,
  * the names in check_params(p, {...}[, {...}]),
  * hand-written accesses  p.get("x" / p.get_child("x" / p.count("x" / p.put(path + "x"
  * the base class, if any,

and, separately, every `enum type { ... }` that has a stream extraction operator (the
component-name enumerations of the run-time interface and preconditioner::side).

The table holds NO line numbers, so that edits elsewhere in a header do not make it stale.
The generated file is an X-macro list; see C14_params.cpp for the consumer.
"""
import os, re, sys, argparse

HERE = os.path.dirname(os.path.abspath(__file__))


def strip_comments(src):
    """replace comments and preprocessor lines by blanks, keep newlines and string literals"""
    out = []
    i, n = 0, len(src)
    while i < n:
        c = src[i]
        if src.startswith("//", i):
            j = src.find("\n", i)
            j = n if j < 0 else j
            out.append(" " * (j - i)); i = j
        elif src.startswith("/*", i):
            j = src.find("*/", i + 2)
            j = n if j < 0 else j + 2
            out.append(re.sub(r"[^\n]", " ", src[i:j])); i = j
        elif c == '"':
            j = i + 1
            while j < n and src[j] != '"':
                j += 2 if src[j] == "\\" else 1
            out.append(src[i:j + 1]); i = j + 1
        elif c == "'":
            j = i + 1
            while j < n and src[j] != "'":
                j += 2 if src[j] == "\\" else 1
            out.append(src[i:j + 1]); i = j + 1
        else:
            out.append(c); i += 1
    s = "".join(out)
    # preprocessor lines (with continuations) -> blanks
    lines = s.split("\n")
    k = 0
    while k < len(lines):
        if lines[k].lstrip().startswith("#"):
            while True:
                cont = lines[k].rstrip().endswith("\\")
                lines[k] = ""
                if not cont or k + 1 >= len(lines):
                    break
                k += 1
        k += 1
    return "\n".join(lines)


def match_brace(s, i, open_c="{", close_c="}"):
    """s[i] == open_c ; returns index of the matching close"""
    d = 0
    j = i
    instr = False
    while j < len(s):
        c = s[j]
        if instr:
            if c == "\\": j += 1
            elif c == '"': instr = False
        elif c == '"': instr = True
        elif c == open_c: d += 1
        elif c == close_c:
            d -= 1
            if d == 0:
                return j
        j += 1
    raise ValueError("unbalanced")


def statements_depth1(body):
    """split the struct body into top-level statements; function bodies end a statement"""
    st, cur = [], []
    db = dp = 0
    instr = False
    i = 0
    while i < len(body):
        c = body[i]
        if instr:
            cur.append(c)
            if c == "\\":
                cur.append(body[i + 1]); i += 1
            elif c == '"':
                instr = False
        elif c == '"':
            instr = True; cur.append(c)
        elif c == "{":
            db += 1; cur.append(c)
        elif c == "}":
            db -= 1; cur.append(c)
            if db == 0 and dp == 0:
                # end of a function body / nested type body: look ahead for an optional declarator + ';'
                m = re.match(r"\s*(\w+)?\s*;", body[i + 1:])
                if m:
                    cur.append(body[i + 1:i + 1 + m.end()]); i += m.end()
                st.append("".join(cur)); cur = []
        elif c == "(":
            dp += 1; cur.append(c)
        elif c == ")":
            dp -= 1; cur.append(c)
        elif c == ";" and db == 0 and dp == 0:
            st.append("".join(cur)); cur = []
        else:
            cur.append(c)
        i += 1
    return [re.sub(r"\s+", " ", x).strip() for x in st if x.strip()]


DECL = re.compile(r"^(?P<type>(?:const\s+)?(?:typename\s+)?[\w:]+(?:\s*<[^;{}()]*>)?(?:::\w+)*(?:\s+(?:int|long|char|short|double))*)\s*(?P<ptr>[\*&\s]*?)\s*(?P<name>\w+)$")


def parse_members(body):
    members = []
    for s in statements_depth1(body):
        if re.match(r"^(typedef|using|static|friend|template|enum|struct|class|public:|private:|protected:)\b", s):
            continue
        if "(" in s or "{" in s:
            continue
        s = re.sub(r"^(public|private|protected)\s*:\s*", "", s)
        m = DECL.match(s)
        if not m:
            members.append(dict(name="?" + s, type="?", ptr=""))
            continue
        members.append(dict(name=m.group("name"), type=re.sub(r"\s+", " ", m.group("type")).strip(),
                            ptr=m.group("ptr").replace(" ", "")))
    return members


def strings_in(s):
    return re.findall(r'"((?:[^"\\]|\\.)*)"', s)


def scope_stack(src, pos):
    """[(kind, name)] of the class/struct/namespace bodies that contain pos"""
    stack = []
    last = 0
    for m in re.finditer(r"[{};]", src[:pos]):
        c = m.group(0)
        if c == "{":
            head = src[last:m.start()]
            kind = name = None
            for h in re.finditer(r"\b(struct|class|namespace)\s+(\w+)\s*([,>=]?)", head):
                if h.group(3) in (",", ">", "="):      # template parameter
                    continue
                kind, name = h.group(1), h.group(2)
            stack.append((kind, name))
        elif c == "}":
            if stack: stack.pop()
        last = m.end()
    return stack


def enclosing_name(src, pos):
    names = [n for k, n in scope_stack(src, pos) if n and k in ("struct", "class")]
    return names[-1] if names else ""


def namespace_path(src, pos):
    return "::".join(n for k, n in scope_stack(src, pos) if n and k == "namespace")


def scan(repo):
    root = os.path.join(repo, "amgcl")
    files = []
    for d, _, fs in os.walk(root):
        for f in fs:
            if f.endswith(".hpp"):
                files.append(os.path.join(d, f))
    files.sort()
    structs, enums = [], []
    for path in files:
        rel = os.path.relpath(path, repo)
        with open(path, errors="replace") as f:
            raw = f.read()
        src = strip_comments(raw)
        for m in re.finditer(r"\bstruct\s+(\w*params)\b([^;{}()]*)\{", src):
            name, inh = m.group(1), m.group(2)
            ob = m.end() - 1
            cb = match_brace(src, ob)
            body = src[ob + 1:cb]
            base = ""
            mi = re.match(r"\s*:\s*(?:public\s+)?(.+?)\s*$", inh, re.S)
            if mi:
                base = re.sub(r"\s+", " ", mi.group(1))
            stem = re.sub(r"\.hpp$", "", os.path.relpath(path, root)).replace("/", "_").replace(".", "_")
            sid = stem if name == "params" else stem + "_" + name
            ordinal_here = sum(1 for s in structs if s["file"] == rel and s["sname"] == name)
            if ordinal_here:
                sid = sid + "_%d" % (ordinal_here + 1)
            imp = [(k.lower(), n) for k, n in re.findall(r"AMGCL_PARAMS_IMPORT_(VALUE|CHILD)\s*\(\s*\w+\s*,\s*(\w+)\s*\)", body)]
            exp = [(k.lower(), n) for k, n in re.findall(r"AMGCL_PARAMS_EXPORT_(VALUE|CHILD)\s*\(\s*\w+\s*,\s*\w+\s*,\s*(\w+)\s*\)", body)]
            chk, chk_opt = [], []
            for mc in re.finditer(r"\bcheck_params\s*\(", body):
                o = mc.end() - 1
                c = match_brace(body, o, "(", ")")
                args = body[o + 1:c]
                groups = re.findall(r"\{([^{}]*)\}", args)
                if groups:
                    chk += strings_in(groups[0])
                if len(groups) > 1:
                    chk_opt += strings_in(groups[1])
            manual_get = re.findall(r"\b\w+\s*\.\s*get(?:_child)?\s*\(\s*\"(\w+)\"", body)
            manual_cnt = re.findall(r"\b\w+\s*\.\s*count\s*\(\s*\"(\w+)\"", body)
            manual_put = re.findall(r"\b\w+\s*\.\s*(?:put|add_child)\s*\(\s*(?:std::string\s*\(\s*)?\w+\s*\)?\s*\+\s*\"(\w+)\"", body)
            has_ptree_ctor = bool(re.search(r"\b" + re.escape(name) + r"\s*\(\s*const\s+boost::property_tree::ptree\s*&", body))
            has_get = bool(re.search(r"\bvoid\s+get\s*\(", body))
            structs.append(dict(id=sid, file=rel, sname=name, enclosing=enclosing_name(src, m.start()), base=base,
                                members=parse_members(body), imp=imp, exp=exp, chk=chk, chk_opt=chk_opt,
                                manual_get=manual_get, manual_cnt=manual_cnt, manual_put=manual_put,
                                has_ptree_ctor=has_ptree_ctor, has_get=has_get,
                                line=src.count("\n", 0, m.start()) + 1))
        for m in re.finditer(r"\benum\s+(\w+)\s*\{([^{}]*)\}", src):
            ename = m.group(1)
            ns = namespace_path(src, m.start())
            # only enumerations that can be read from a stream (i.e. from a property tree)
            if not re.search(r"operator\s*>>\s*\(\s*std::istream\s*&\s*\w+\s*,\s*" + re.escape(ename) + r"\s*&", src):
                continue
            items = [re.sub(r"\s*=.*$", "", x.strip()) for x in m.group(2).split(",") if x.strip()]
            stem = re.sub(r"\.hpp$", "", os.path.relpath(path, root)).replace("/", "_")
            enums.append(dict(id=stem, file=rel, ns=ns, name=ename, items=items, line=src.count("\n", 0, m.start()) + 1))
    # resolve `struct params : X::params` textually: X is the enclosing class of another scanned struct,
    # possibly through `typedef X<...> Alias;` in the same file
    for s in structs:
        s["inherited"] = []
        mb = re.match(r"^(?:typename\s+)?(\w+)::params$", s["base"])
        if not mb:
            continue
        x = mb.group(1)
        with open(os.path.join(repo, s["file"]), errors="replace") as f:
            fsrc = strip_comments(f.read())
        ma = re.search(r"\btypedef\s+(?:typename\s+)?(?:\w+::)*(\w+)\s*<[^;]*>\s+" + re.escape(x) + r"\s*;", fsrc)
        if ma:
            x = ma.group(1)
        cand = [b for b in structs if b["enclosing"] == x and b["sname"] == "params" and b is not s]
        if len(cand) > 1:       # several classes of that name: take the one whose header this file includes
            with open(os.path.join(repo, s["file"]), errors="replace") as f:
                incs = re.findall(r"#\s*include\s*<([^>]+)>", f.read())
            cand = [b for b in cand if b["file"] in incs or b["file"] == s["file"]]
        if len(cand) == 1:
            s["base_id"] = cand[0]["id"]
            s["inherited"] = [dict(m) for m in cand[0]["members"]]
            s["base_struct"] = cand[0]
    return structs, enums, len(files)


def field_rows(s):
    """merge members and all name lists into one ordered list of rows"""
    names = []
    for mb in s["members"]:
        names.append(mb["name"])
    base = s.get("base_struct")
    for mb in s.get("inherited", []):
        if mb["name"] not in names: names.append(mb["name"])
    for lst in (s["imp"], s["exp"]):
        for k, n in lst:
            if n not in names: names.append(n)
    for lst in (s["chk"], s["chk_opt"], s["manual_get"], s["manual_cnt"], s["manual_put"]):
        for n in lst:
            if n not in names: names.append(n)
    rows = []
    for n in names:
        mb = next((x for x in s["members"] if x["name"] == n), None)
        imp = next((k for k, x in s["imp"] if x == n), None)
        exp = next((k for k, x in s["exp"] if x == n), None)
        if mb is None and base is not None:
            mb = next((x for x in base["members"] if x["name"] == n), None)
            if mb is not None:      # inherited member: imported / exported by the base class lists
                bi = next((k for k, x in base["imp"] if x == n), None)
                be = next((k for k, x in base["exp"] if x == n), None)
                imp = imp or (("base_" + bi) if bi else None)
                exp = exp or (("base_" + be) if be else None)
        if imp is None and (n in s["manual_get"] or n in s["manual_cnt"]): imp = "manual"
        if exp is None and n in s["manual_put"]: exp = "manual"
        chk = "req" if n in s["chk"] else ("opt" if n in s["chk_opt"] else "none")
        if mb is None:
            kind = "KEY"          # a key that is not a data member (e.g. rows, pmask_size, pmask_pattern)
            ty = ""
        else:
            ty = mb["type"] + mb["ptr"]
            if "*" in mb["ptr"]: kind = "POINTER"
            elif re.match(r"^std::vector\b", mb["type"]): kind = "VECTOR"
            elif "child" in (imp or "") or ("child" in (exp or "") and imp is None): kind = "CHILD"
            else: kind = "VALUE"
        rows.append(dict(name=n, kind=kind, type=ty, imp=imp or "none", exp=exp or "none", chk=chk, member=mb is not None))
    return rows


def render(structs, enums, nfiles):
    o = []
    o.append("// C14_table.inc -- GENERATED by C14_scan.py from the headers under <repo>/amgcl; do not edit.")
    o.append("// %d headers scanned, %d parameter structures, %d stream-readable enumerations." % (nfiles, len(structs), len(enums)))
    o.append("// C14_STRUCT(id, file, struct name, enclosing class, base, has ptree ctor, has get())")
    o.append("// C14_<KIND>(id, name, type text, import: none|value|child|manual, export: ..., check_params: req|opt|none)")
    o.append("//   KIND = VALUE | CHILD | POINTER | VECTOR (data members) ; KEY (a name in the lists that is not a data member)")
    o.append("//   import/export `base_*`: the member is inherited and handled by the lists of the base structure")
    o.append("// The consumer defines every C14_* macro before including this file; a block is only expanded when the")
    o.append("// consumer defined C14_HAVE_<id> (it then also provides the C++ type C14_T_<id>), otherwise C14_UNMAPPED.")
    for s in structs:
        o.append("")
        o.append("#ifdef C14_HAVE_%s" % s["id"])
        o.append('C14_STRUCT(%s, "%s", "%s", "%s", "%s", %d, %d)' % (
            s["id"], s["file"], s["sname"], s["enclosing"], s["base"], s["has_ptree_ctor"], s["has_get"]))
        for r in field_rows(s):
            if r["name"].startswith("?"):
                o.append('C14_UNPARSED(%s, "%s")' % (s["id"], r["name"][1:].replace('"', "'")))
                continue
            o.append('C14_%s(%s, %s, "%s", %s, %s, %s)' % (r["kind"], s["id"], r["name"], r["type"], r["imp"], r["exp"], r["chk"]))
        o.append("C14_STRUCT_END(%s)" % s["id"])
        o.append("#else")
        o.append('C14_UNMAPPED(%s, "%s")' % (s["id"], s["file"]))
        o.append("#endif")
    o.append("")
    for e in enums:
        o.append("")
        o.append("#ifdef C14_HAVE_ENUM_%s" % e["id"])
        o.append('C14_ENUM(%s, "%s", %s::%s)' % (e["id"], e["file"], e["ns"], e["name"]))
        for it in e["items"]:
            o.append("C14_ENUMERATOR(%s, %s::%s, %s)" % (e["id"], e["ns"], it, it))
        o.append("C14_ENUM_END(%s)" % e["id"])
        o.append("#else")
        o.append('C14_ENUM_UNMAPPED(%s, "%s")' % (e["id"], e["file"]))
        o.append("#endif")
    o.append("")
    return "\n".join(o)


def main():
    ap = argparse.ArgumentParser()
    ap.add_argument("--repo", default=os.environ.get("VERIF_REPO", "/repo"))
    ap.add_argument("--table", default=os.path.join(HERE, "C14_table.inc"))
    ap.add_argument("--write", action="store_true")
    ap.add_argument("--check", action="store_true")
    ap.add_argument("--list", action="store_true")
    a = ap.parse_args()
    structs, enums, nfiles = scan(a.repo)
    text = render(structs, enums, nfiles)
    if a.list:
        for s in structs:
            print("%s  %s:%d  struct %s in %s%s" % (s["id"], s["file"], s["line"], s["sname"], s["enclosing"], (" : " + s["base"]) if s["base"] else ""))
            for r in field_rows(s):
                print("    %-8s %-28s %-36s imp=%-6s exp=%-6s chk=%s" % (r["kind"], r["name"], r["type"], r["imp"], r["exp"], r["chk"]))
        for e in enums:
            print("enum %s  %s:%d  %s::%s = %s" % (e["id"], e["file"], e["line"], e["ns"], e["name"], ", ".join(e["items"])))
    if a.write:
        with open(a.table, "w") as f:
            f.write(text)
        print("wrote %s: %d structs, %d enums from %d headers" % (a.table, len(structs), len(enums), nfiles))
    if a.check:
        try:
            with open(a.table) as f:
                old = f.read()
        except OSError:
            old = ""
        if old == text:
            print("CURRENT %d structs %d enums %d headers" % (len(structs), len(enums), nfiles))
            return 0
        import difflib
        d = list(difflib.unified_diff(old.split("\n"), text.split("\n"), "committed table", "scan of " + a.repo, lineterm="", n=0))
        print("STALE")
        print("\n".join(d[:60]))
        return 1
    return 0


if __name__ == "__main__":
    sys.exit(main())
