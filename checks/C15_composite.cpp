// C15 unit "composite": make_solver, deflated_solver, schur_pressure_correction, cpr as live objects.
#include "C15_amgstate.hpp"
#include <amgcl/coarsening/smoothed_aggregation.hpp>
#include <amgcl/deflated_solver.hpp>
#include <amgcl/preconditioner/schur_pressure_correction.hpp>
#include <amgcl/preconditioner/cpr.hpp>

using namespace c15;
typedef double V;
typedef amgcl::backend::builtin<V> Backend;
typedef amgcl::backend::crs<V> Crs;
typedef amgcl::amg<Backend, amgcl::coarsening::smoothed_aggregation, amgcl::relaxation::spai0> AMG;
typedef amgcl::relaxation::as_preconditioner<Backend, amgcl::relaxation::ilu0> RIlu;
typedef amgcl::relaxation::as_preconditioner<Backend, amgcl::relaxation::spai0> RSpai;

namespace c15 {
template <class P, class S> void hstate(Hs &h, const amgcl::deflated_solver<P, S> &m) {
    hstate(h, m.P); hstate(h, m.S); h.sp(m.r); h.spv(m.Z); h.vec(m.E); h.vec(m.d);
}
template <class U, class P> void hstate(Hs &h, const amgcl::preconditioner::schur_pressure_correction<U, P> &m) {
    h.sp(m.rhs_u); h.sp(m.rhs_p); h.sp(m.u); h.sp(m.p); h.sp(m.tmp); h.sp(m.M); h.sp(m.Ld);
    h.spm(m.K); h.spm(m.Lm); h.spm(m.Kup); h.spm(m.Kpu);
    hstate(h, *m.U); hstate(h, *m.P);
}
template <class P, class S> void hstate(Hs &h, const amgcl::preconditioner::cpr<P, S> &m) {
    hstate(h, *m.P); hstate(h, *m.S); h.spm(m.Fpp); h.spm(m.Scatter); h.sp(m.rs); h.sp(m.rp); h.sp(m.xp);
}
}

// ------------------------------------------------------------------------------------------
// generic "solver-like object": operator()(rhs,x), operator()(A,rhs,x), apply(rhs,x)
struct CProblem {
    Sys<V> A0, A1, A2, Ash, Aempty, Azero;
    std::shared_ptr<Crs> a1, a2, ash, aempty, azero;
    uint64_t hu[6], hc[5], h_a0crs;
    std::vector<V> f[F_KINDS], x0[F_KINDS][X_KINDS];
    bool exact_ok[F_KINDS];
    std::string name; int n;
    CProblem(const std::string &name, Sys<V> A0_, Sys<V> A1_, Sys<V> A2_) : name(name) {
        A0 = A0_; A1 = A1_; A2 = A2_; n = (int)A0.n;
        Ash = shift_matrix<V>(n); Aempty = empty_row_matrix(A0); Azero = zero_values(A0);
        a1 = std::make_shared<Crs>(A1.tie()); a2 = std::make_shared<Crs>(A2.tie()); ash = std::make_shared<Crs>(Ash.tie()); aempty = std::make_shared<Crs>(Aempty.tie()); azero = std::make_shared<Crs>(Azero.tie());
        hashes(hu, hc);
        { Crs a0(A0.tie()); Hs h; h.crs(a0); h_a0crs = h.h; }
        for (int k = 0; k < F_KINDS; ++k) {
            f[k] = rhs<V>(k, n);
            bool finite = (k != F_NAN && k != F_HUGE);
            x0[k][X_ZERO] = std::vector<V>(n, V());
            x0[k][X_EXACT] = dense_solve(A0, finite ? f[k] : f[F_GEN]);
            x0[k][X_RAMP] = ramp<V>(n);
            exact_ok[k] = false;
            if (finite && k != F_ZERO) { long double r = true_residual(A0, f[k], x0[k][X_EXACT]), nf = norm_ld(f[k]); exact_ok[k] = r <= 1e-3L * 1e-8L * nf; }
        }
    }
    void hashes(uint64_t *u, uint64_t *c) const {
        u[0] = A0.hash(); u[1] = A1.hash(); u[2] = A2.hash(); u[3] = Ash.hash(); u[4] = Aempty.hash(); u[5] = Azero.hash();
        const std::shared_ptr<Crs> *m[5] = {&a1, &a2, &ash, &aempty, &azero};
        for (int i = 0; i < 5; ++i) { Hs h; h.crs(**m[i]); c[i] = h.h; }
    }
    bool intact() const { uint64_t u[6], c[5]; hashes(u, c); return !std::memcmp(u, hu, sizeof u) && !std::memcmp(c, hc, sizeof c); }
};

// Kind for anything with the make_solver interface.  Derived classes provide make() and extra ops.
template <class T>
struct BundleKind {
    typedef T Obj;
    const CProblem &pb; std::string nm; bool guess_rule; size_t maxiter;
    std::vector<Op<Obj>> op; int probe_ix = -1; RefPolicy pol = REF_LAST_MUTATOR;
    std::function<std::unique_ptr<Obj>()> maker;
    BundleKind(const CProblem &pb, const std::string &nm, bool guess_rule, size_t maxiter) : pb(pb), nm(nm), guess_rule(guess_rule), maxiter(maxiter) {}
    std::unique_ptr<Obj> make() { return maker(); }
    const std::vector<Op<Obj>>& ops() const { return op; }
    uint64_t state_key(const Obj &o) const { Hs h; hstate(h, o); return h.h; }
    std::string name() const { return nm; }
    RefPolicy policy() const { return pol; }
    bool equality() const { return true; }
    int probe() const { return probe_ix; }

    void integrity(Outcome &o, const NV<V> &rhs, const std::vector<V> &f) const {
        if (!same_bytes(rhs, f)) o.notes.push_back({"rhs_modified", "the right-hand side vector was written to"});
        if (!pb.intact()) o.notes.push_back({"matrix_modified", "a user matrix was written to"});
    }
    Outcome solve(Obj &S, const Crs *Aalt, int fk, int xk, bool conv_guess) const {
        Outcome o; NV<V> rhs(pb.f[fk]), x(pb.x0[fk][xk]);
        size_t it = 0; double res = 0;
        // the guess is the exact solution for A0: the rule applies only while A0 is the object's system matrix
        if (conv_guess) { Hs h; h.crs(S.system_matrix()); if (h.h != pb.h_a0crs) { conv_guess = false; vf::count("converged_guess_rule_skipped_after_matrix_change"); } }
        try { if (Aalt) std::tie(it, res) = S(*Aalt, rhs, x); else std::tie(it, res) = S(rhs, x); }
        catch (const std::exception &e) { o.status = 1; o.what = e.what(); }
        o.iters = it; o.put(&res, 1); o.put(&x[0], x.size());
        integrity(o, rhs, pb.f[fk]);
        if (!o.status && fk == F_ZERO) {
            if (it != 0 || !all_zero(x)) o.notes.push_back({"zero_rhs", vf::KS() << "zero right-hand side returned iters=" << it << " and x " << (all_zero(x) ? "= 0" : "!= 0")});
            else vf::count("zero_rhs_checked");
        }
        if (conv_guess && guess_rule) {
            if (o.status || it != 0 || !same_bytes(x, pb.x0[fk][xk])) {
                double md = 0; for (int i = 0; i < pb.n; ++i) md = std::max(md, std::abs(x[i] - pb.x0[fk][xk][i]));
                o.notes.push_back({"converged_guess", vf::KS() << "initial guess with residual <= 1e-3*tol*|f|: iters=" << it << ", x " << (same_bytes(x, pb.x0[fk][xk]) ? "unchanged" : "changed") << " (max |dx| = " << md << ")"});
            } else vf::count("converged_guess_checked");
        }
        // absolute companion of the differential oracle (which replays the mutators on the reference object too and therefore cannot
        // see a defect in what a mutator leaves behind): a plain solve(f,x) that reports convergence has solved the system the
        // preconditioner holds NOW (after rebuild(A1) that is A1), whatever the history
        if (!o.status && !Aalt && res == res && res < 1e-8 && fk != F_ZERO && fk != F_NAN) {
            const auto &Acur = S.precond().system_matrix();
            long double rr = 0, ff = 0;
            for (size_t i = 0; i < (size_t)pb.n; ++i) {
                V a = rhs[i];
                for (auto j = Acur.ptr[i]; j < Acur.ptr[i + 1]; ++j) a -= Acur.val[j] * x[Acur.col[j]];
                rr += (long double)std::abs(a) * std::abs(a); ff += (long double)std::abs(rhs[i]) * std::abs(rhs[i]);
            }
            double tr = ff > 0 ? (double)std::sqrt(rr / ff) : 0.0;
            if (!(tr < 1e-5)) o.notes.push_back({"solves_current_matrix", vf::KS() << "solve(f,x) reported residual " << res << " but against the matrix the preconditioner currently holds the residual of x is " << tr});
            else vf::count("reported_convergence_checked_against_current_matrix");
        }
        if (o.status) vf::count("calls_that_threw");
        else if (!(res == res) || std::isinf(res)) vf::count("calls_with_nonfinite_residual");
        else if (it >= maxiter) vf::count("calls_hitting_maxiter");
        return o;
    }
    void add_solves(bool with_alt) {
        for (int fk = 0; fk < F_KINDS; ++fk) for (int xk = 0; xk < X_KINDS; ++xk) {
            Op<Obj> o; o.name = std::string("solve(") + fname(fk) + "," + xname(xk) + ")";
            bool cg = (xk == X_EXACT && pb.exact_ok[fk]);
            o.run = [this, fk, xk, cg](Obj &S) { return solve(S, nullptr, fk, xk, cg); };
            op.push_back(o);
        }
        if (!with_alt) return;
        auto alt = [&](const char *nm, const std::shared_ptr<Crs> &A, int fk, int xk) {
            Op<Obj> o; o.name = std::string("solve(") + nm + "," + fname(fk) + "," + xname(xk) + ")";
            const Crs *a = A.get();
            o.run = [this, a, fk, xk](Obj &S) { return solve(S, a, fk, xk, false); };
            op.push_back(o);
        };
        alt("A1", pb.a1, F_GEN, X_ZERO); alt("A1", pb.a1, F_GEN, X_RAMP); alt("A2", pb.a2, F_GEN2, X_ZERO);
        alt("Ashift", pb.ash, F_E1, X_ZERO); alt("Ashift", pb.ash, F_GEN, X_RAMP); alt("Aemptyrow", pb.aempty, F_GEN, X_ZERO); alt("Azero", pb.azero, F_GEN, X_ZERO);
    }
    void add_applies(const std::vector<int> &fks) {
        for (int fk : fks) {
            Op<Obj> o; o.name = std::string("apply(") + fname(fk) + ")";
            o.run = [this, fk](Obj &S) {
                Outcome r; NV<V> rhs(pb.f[fk]), x(std::vector<V>(pb.n, 7.0));
                try { S.apply(rhs, x); } catch (const std::exception &e) { r.status = 1; r.what = e.what(); }
                double z = 0; r.put(&z, 1); r.put(&x[0], x.size());
                integrity(r, rhs, pb.f[fk]);
                if (fk == F_ZERO && !r.status) { if (!all_zero(x)) r.notes.push_back({"zero_rhs", "apply(0) returned a non-zero vector"}); else vf::count("zero_rhs_checked"); }
                return r;
            };
            if (probe_ix < 0 && fk == F_GEN) probe_ix = (int)op.size();
            op.push_back(o);
        }
    }
    template <class F> void add_mutator(const std::string &name, OpClass cls, F fn) {
        Op<Obj> o; o.name = name; o.cls = cls;
        o.run = [this, fn](Obj &S) {
            Outcome r;
            try { fn(S); } catch (const std::exception &e) { r.status = 1; r.what = e.what(); vf::count("mutators_that_threw"); }
            double z = 0; r.put(&z, 1);
            if (!pb.intact()) r.notes.push_back({"matrix_modified", "a user matrix was written to by a rebuild / update call"});
            return r;
        };
        op.push_back(o);
    }
};

template <class Kind>
static void run_kind(Kind &K, const std::string &cfg, int quick_depth, int thorough_depth) {
    std::vector<int> ds = vf::replaying() ? std::vector<int>{1, 2, 3, 4, 5, 6} : std::vector<int>{vf::thorough() ? thorough_depth : quick_depth};
    for (int d : ds) {
        std::string key = vf::KS() << "bfs|double|" << K.name() << "|" << cfg << "|d" << d;
        if (!vf::take([&]{ return key; })) continue;
        ExploreStats st = explore(K, key, d);
        vf::count("bfs_runs_with_alphabet_of_" + std::to_string(K.ops().size()) + "_calls." + K.name());
        vf::count("states_" + K.name(), st.states);
        vf::count("transitions_" + K.name(), st.transitions);
    }
}

// ------------------------------------------------------------------------------------------
template <class Solver>
static void make_solver_kind(const CProblem &pb, const std::string &sn, typename Solver::params sp, int q, int t, bool guess_rule = true) {
    typedef amgcl::make_solver<AMG, Solver> MS;
    typename MS::params prm; prm.solver = sp; prm.solver.maxiter = 30; prm.solver.tol = 1e-8; prm.precond.coarse_enough = 3;
    BundleKind<MS> K(pb, "make_solver_amg_" + sn, guess_rule, 30);
    K.maker = [&pb, prm]() { return std::unique_ptr<MS>(new MS(pb.A0.tie(), prm)); };
    K.add_solves(true);
    K.add_applies({F_GEN, F_ZERO, F_NAN});
    K.add_mutator("precond().rebuild(A1)", MUTATOR, [&pb](MS &S) { S.precond().rebuild(pb.A1.tie()); });
    K.add_mutator("precond().rebuild(A0)", MUTATOR, [&pb](MS &S) { S.precond().rebuild(pb.A0.tie()); });
    run_kind(K, pb.name, q, t);
}

template <class Solver>
static void deflated_kind(const CProblem &pb, const std::string &sn, const std::vector<double> &Z, int nvec, int q, int t) {
    typedef amgcl::deflated_solver<AMG, Solver> DS;
    typename DS::params prm; prm.nvec = nvec; prm.vec = const_cast<double*>(Z.data());
    prm.solver.maxiter = 30; prm.solver.tol = 1e-8; prm.precond.coarse_enough = 3;
    BundleKind<DS> K(pb, "deflated_solver_amg_" + sn, true, 30);
    K.maker = [&pb, prm]() { return std::unique_ptr<DS>(new DS(pb.A0.tie(), prm)); };
    K.add_solves(true);
    K.add_applies({F_GEN, F_ZERO, F_NAN});
    run_kind(K, pb.name + "/nvec" + std::to_string(nvec), q, t);
}

// Stokes-like saddle point system: [[A, B^T], [B, -C]], A = diffusion on nu nodes, B = one-sided differences
static Sys<V> saddle(int nx, int ny, double scale, double cstab, const std::string &name) {
    Sys<V> A = grid<V>(nx, ny, 0.0, scale, 0, "A");
    int nu = (int)A.n, np = nu / 2, n = nu + np;
    Rows<V> R(n);
    for (int i = 0; i < nu; ++i) for (ptrdiff_t j = A.ptr[i]; j < A.ptr[i + 1]; ++j) R.add(i, (int)A.col[j], A.val[j]);
    for (int p = 0; p < np; ++p) {
        int a = 2 * p, b = 2 * p + 1;
        R.add(nu + p, a, -1.0); R.add(nu + p, b, 1.0); R.add(a, nu + p, -1.0); R.add(b, nu + p, 1.0);
        if (p + 1 < np) { R.add(nu + p, 2 * p + 2, 0.5); R.add(2 * p + 2, nu + p, 0.5); }
        R.add(nu + p, nu + p, -cstab * (1 + 0.25 * (p % 3)));
        if (p > 0) { R.add(nu + p, nu + p - 1, 0.125 * cstab); R.add(nu + p - 1, nu + p, 0.125 * cstab); }
    }
    return R.finish(name);
}
// 2-phase style system with interleaved unknowns (block size 2): A (x) coupling blocks that vary with the node
static Sys<V> twophase(int nx, double scale, const std::string &name) {
    Sys<V> A = grid<V>(nx, 1, 0.5, scale, 0, "A");
    int nb = (int)A.n; Rows<V> R(2 * nb);
    for (int i = 0; i < nb; ++i) for (ptrdiff_t j = A.ptr[i]; j < A.ptr[i + 1]; ++j) {
        int c = (int)A.col[j]; double a = A.val[j];
        double b00 = 1.0, b01 = 0.25 * (1 + (i + c) % 2), b10 = (i == c) ? -0.5 : 0.125, b11 = 1.5 + 0.25 * (i % 3);
        R.add(2 * i, 2 * c, a * b00); R.add(2 * i, 2 * c + 1, a * b01); R.add(2 * i + 1, 2 * c, a * b10); R.add(2 * i + 1, 2 * c + 1, a * b11);
    }
    return R.finish(name);
}

int main(int argc, char **argv) {
    vf::init(argc, argv, "C15");
    if (vf::section("bfs")) {
        namespace s = amgcl::solver;
        const int Q = 3, T = 4;
        CProblem spd("spd4x4", grid<V>(4, 4, 0.0, 1.0, 0, "spd4x4"), grid<V>(4, 4, 0.0, 1.75, 0, "spd4x4_perturbed"), grid<V>(16, 1, 0.0, 1.0, 0, "chain16"));
        CProblem ns("convdiff4x4", grid<V>(4, 4, 0.75, 1.0, 0, "convdiff4x4"), grid<V>(4, 4, 0.4, 1.75, 0, "convdiff4x4_perturbed"), grid<V>(16, 1, 0.75, 1.0, 0, "convchain16"));
        vf::sample_str("alphabet of a make_solver kind: 18 solve(f,x0), 6 solve(A',f,x0), apply(gen|zero|nan), precond().rebuild(A1|A0)");
        for (const CProblem *pb : {&spd, &ns}) {
            { s::cg<Backend>::params p; make_solver_kind<s::cg<Backend>>(*pb, "cg", p, Q, T); }
            { s::bicgstab<Backend>::params p; make_solver_kind<s::bicgstab<Backend>>(*pb, "bicgstab", p, Q, T); }
            { s::bicgstabl<Backend>::params p; make_solver_kind<s::bicgstabl<Backend>>(*pb, "bicgstabl", p, Q, T); }
            { s::gmres<Backend>::params p; p.M = 4; make_solver_kind<s::gmres<Backend>>(*pb, "gmres", p, Q, T); }
            { s::fgmres<Backend>::params p; p.M = 4; make_solver_kind<s::fgmres<Backend>>(*pb, "fgmres", p, Q, T); }
            { s::lgmres<Backend>::params p; p.M = 4; p.K = 2; make_solver_kind<s::lgmres<Backend>>(*pb, "lgmres", p, Q, T); }
            { s::idrs<Backend>::params p; make_solver_kind<s::idrs<Backend>>(*pb, "idrs", p, Q, T); }
            { s::richardson<Backend>::params p; make_solver_kind<s::richardson<Backend>>(*pb, "richardson", p, Q, T); }
            // deflation vectors: indicator functions of nvec contiguous subdomains
            for (int nvec : {2, 4}) {
                std::vector<double> Z((size_t)nvec * 16, 0.0);
                for (int i = 0; i < 16; ++i) Z[(size_t)(i * nvec / 16) * 16 + i] = 1.0;
                deflated_kind<s::cg<Backend>>(*pb, "cg", Z, nvec, Q, T);
                if (nvec == 2) deflated_kind<s::bicgstab<Backend>>(*pb, "bicgstab", Z, nvec, Q, T);
            }
        }
        // schur pressure correction on a Stokes-like system (12 velocity + 6 pressure unknowns)
        {
            Sys<V> K0 = saddle(4, 3, 1.0, 0.5, "saddle4x3"), K1 = saddle(4, 3, 1.75, 0.75, "saddle4x3_perturbed");
            Rows<V> R2(18); for (int i = 0; i < 18; ++i) { R2.add(i, i, 4.0 + i % 3); if (i) R2.add(i, i - 1, -1.0); if (i < 17) R2.add(i, i + 1, -1.5); }
            CProblem pb("saddle4x3", K0, K1, R2.finish("chain18"));
            typedef amgcl::make_solver<AMG, s::bicgstab<Backend>> USolver;
            typedef amgcl::make_solver<RSpai, s::bicgstab<Backend>> PSolver;
            typedef amgcl::preconditioner::schur_pressure_correction<USolver, PSolver> SPC;
            for (int type : {1, 2}) for (int adj : {0, 1, 2}) {
                SPC::params prm; prm.type = type; prm.adjust_p = adj; prm.approx_schur = (adj == 2); prm.simplec_dia = (adj != 0);
                prm.pmask.assign(18, 0); for (int i = 12; i < 18; ++i) prm.pmask[i] = 1;
                prm.usolver.solver.maxiter = 8; prm.usolver.solver.tol = 1e-3; prm.usolver.precond.coarse_enough = 3;
                prm.psolver.solver.maxiter = 8; prm.psolver.solver.tol = 1e-3;
                std::string cfg = vf::KS() << pb.name << "/type" << type << ",adjust_p" << adj;
                {
                    BundleKind<SPC> K(pb, "schur_pc", true, 0);
                    K.maker = [&pb, prm]() { return std::unique_ptr<SPC>(new SPC(pb.A0.tie(), prm)); };
                    K.add_applies({F_GEN, F_GEN2, F_ZERO, F_NAN, F_E1, F_HUGE});
                    run_kind(K, cfg, 4, 5);
                }
                if (adj == 1) {
                    typedef amgcl::make_solver<SPC, s::fgmres<Backend>> MS;
                    MS::params mp; mp.precond = prm; mp.solver.maxiter = 30; mp.solver.tol = 1e-8; mp.solver.M = 10;
                    BundleKind<MS> K(pb, "make_solver_schur_pc_fgmres", true, 30);
                    K.maker = [&pb, mp]() { return std::unique_ptr<MS>(new MS(pb.A0.tie(), mp)); };
                    K.add_solves(true);
                    K.add_applies({F_GEN, F_ZERO});
                    run_kind(K, cfg, Q, T);
                }
            }
        }
        // cpr on a two-phase style system (8 cells x 2 unknowns)
        {
            Sys<V> K0 = twophase(8, 1.0, "twophase8"), K1 = twophase(8, 1.75, "twophase8_perturbed");
            Rows<V> R2(16); for (int i = 0; i < 16; ++i) { R2.add(i, i, 4.0 + i % 3); if (i) R2.add(i, i - 1, -1.0); if (i < 15) R2.add(i, i + 1, -1.5); }
            CProblem pb("twophase8", K0, K1, R2.finish("chain16"));
            typedef amgcl::preconditioner::cpr<AMG, RIlu> CPR;
            for (size_t active : {(size_t)0, (size_t)12}) {
                CPR::params prm; prm.block_size = 2; prm.active_rows = active; prm.pprecond.coarse_enough = 3;
                std::string cfg = vf::KS() << pb.name << "/block2,active_rows" << active;
                {
                    BundleKind<CPR> K(pb, "cpr", true, 0); K.pol = REF_ALL_MUTATORS;
                    K.maker = [&pb, prm]() { return std::unique_ptr<CPR>(new CPR(pb.A0.tie(), prm)); };
                    K.add_applies({F_GEN, F_GEN2, F_ZERO, F_NAN, F_E1, F_HUGE});
                    K.add_mutator("partial_update(K1,transfer=true)", MUTATOR, [&pb](CPR &S) { S.partial_update(pb.A1.tie(), true); });
                    K.add_mutator("partial_update(K1,transfer=false)", MUTATOR, [&pb](CPR &S) { S.partial_update(pb.A1.tie(), false); });
                    K.add_mutator("partial_update(K0,transfer=true)", MUTATOR, [&pb](CPR &S) { S.partial_update(pb.A0.tie(), true); });
                    run_kind(K, cfg, 4, 5);
                }
                {
                    typedef amgcl::make_solver<CPR, s::bicgstab<Backend>> MS;
                    MS::params mp; mp.precond = prm; mp.solver.maxiter = 30; mp.solver.tol = 1e-8;
                    BundleKind<MS> K(pb, "make_solver_cpr_bicgstab", true, 30); K.pol = REF_ALL_MUTATORS;
                    K.maker = [&pb, mp]() { return std::unique_ptr<MS>(new MS(pb.A0.tie(), mp)); };
                    K.add_solves(true);
                    K.add_applies({F_GEN, F_ZERO});
                    K.add_mutator("precond().partial_update(K1,transfer=true)", MUTATOR, [&pb](MS &S) { S.precond().partial_update(pb.A1.tie(), true); });
                    K.add_mutator("precond().partial_update(K1,transfer=false)", MUTATOR, [&pb](MS &S) { S.precond().partial_update(pb.A1.tie(), false); });
                    run_kind(K, cfg, Q, T);
                }
            }
        }
        vf::space("all call histories up to the tier depth for make_solver<amg,S> (8 solvers), deflated_solver<amg,cg|bicgstab> (2 and 4 vectors), schur_pressure_correction (type 1,2 x adjust_p 0,1,2) alone and inside make_solver<.,fgmres>, cpr (active_rows 0 and 12) alone and inside make_solver<.,bicgstab>");
    }
    return vf::finish();
}
