// C05 (unit "stagnation") -- perfectly conditioned systems on which the residual-minimising methods stagnate
// exactly: (scaled) cyclic shifts, reversals and block anti-diagonal matrices with unit right-hand sides.  The
// Hessenberg diagonal entry H(j,j) is exactly zero at the stagnating steps, which exercises the branch of the plane
// rotation that the diagonally dominant families of the main unit never reach.  All data are 0, +-1, +-2, 1/2, so the
// arithmetic is exact: iterates must be finite, the true residual non-increasing in k (GMRES, FGMRES, LGMRES first
// cycle), and the system solved within n iterations.
#include <complex>
#include <amgcl/backend/builtin.hpp>
#include <amgcl/value_type/complex.hpp>
#include <amgcl/adapter/crs_tuple.hpp>
#include <amgcl/make_solver.hpp>
#include <amgcl/preconditioner/dummy.hpp>
#include <amgcl/solver/runtime.hpp>
#include <boost/property_tree/ptree.hpp>
#include <cmath>
#include <cstring>
#include "vf.hpp"

using namespace amgcl;

template <class V> struct Sys { int n; std::vector<ptrdiff_t> ptr, col; std::vector<V> val; std::string name; };

template <class V> static V unit_i();
template <> double unit_i<double>() { return -1.0; }
template <> std::complex<double> unit_i<std::complex<double>>() { return std::complex<double>(0, 1); }

// kind 0: cyclic shift  A e_j = d_j e_{j+1};  1: reversed shift A e_j = d_j e_{j-1};  2: anti-diagonal A e_j = d_j e_{n-1-j};
// kind 3: two-cycle permutation (0 1)(2 3)...(last fixed if n odd) ; scale rule picks d_j from {1, 2, 1/2, -1 or i}
template <class V> static Sys<V> make(int n, int kind, int scale) {
    Sys<V> s; s.n = n; s.name = std::string(vf::KS() << "k" << kind << "n" << n << "s" << scale);
    std::vector<int> col_of_row(n);
    for (int i = 0; i < n; ++i) {
        switch (kind) {
            case 0: col_of_row[i] = (i + n - 1) % n; break;
            case 1: col_of_row[i] = (i + 1) % n; break;
            case 2: col_of_row[i] = n - 1 - i; break;
            default: col_of_row[i] = (i % 2 == 0) ? (i + 1 < n ? i + 1 : i) : i - 1; break;
        }
    }
    s.ptr.push_back(0);
    for (int i = 0; i < n; ++i) {
        V d = V(1);
        if (scale == 1) d = (i % 3 == 0) ? V(2) : ((i % 3 == 1) ? V(0.5) : V(1));
        if (scale == 2) d = (i % 2) ? unit_i<V>() : V(1);
        s.col.push_back(col_of_row[i]); s.val.push_back(d);
        s.ptr.push_back((ptrdiff_t)s.col.size());
    }
    return s;
}

template <class V> static double tres(const Sys<V> &s, const std::vector<V> &f, const std::vector<V> &x, bool &finite) {
    long double r = 0; finite = true;
    for (int i = 0; i < s.n; ++i) {
        V a = f[i]; for (ptrdiff_t j = s.ptr[i]; j < s.ptr[i + 1]; ++j) a -= s.val[j] * x[s.col[j]];
        r += std::norm(std::complex<double>(a));
        if (!std::isfinite(std::abs(std::complex<double>(x[i])))) finite = false;
    }
    return (double)std::sqrt(r);
}

template <class V> static void run(const char *vt) {
    typedef backend::builtin<V> B;
    typedef make_solver<preconditioner::dummy<B>, runtime::solver::wrapper<B>> S;
    struct Cfg { const char *type; const char *pside; int Mextra; int K; bool monotone; };
    const Cfg cfgs[] = {{"gmres", "right", 0, 0, true}, {"gmres", "left", 0, 0, true}, {"gmres", "right", 30, 0, true}, {"fgmres", nullptr, 0, 0, true},
                        {"lgmres", "right", 0, 1, true}, {"lgmres", "left", 0, 2, true}, {"bicgstabl", "right", 0, 0, false}, {"idrs", nullptr, 0, 0, false}};
    for (int n = 2; n <= 7; ++n) for (int kind = 0; kind < 4; ++kind) for (int scale = 0; scale < 3; ++scale) for (int rhs = 0; rhs < 3; ++rhs) {
        std::string key = vf::KS() << "stag|" << vt << "|" << n << "|" << kind << "|" << scale << "|" << rhs;
        if (!vf::take([&]{ return key; })) continue;
        Sys<V> s = make<V>(n, kind, scale);
        std::vector<V> f(n, V(0));
        if (rhs == 0) f[0] = V(1); else if (rhs == 1) f[n - 1] = V(2); else for (int i = 0; i < n; ++i) f[i] = V(1 + (i % 2));
        double nf = 0; for (auto &v : f) nf += std::norm(std::complex<double>(v)); nf = std::sqrt(nf);
        vf::nontrivial(vf::hstr(key));
        for (auto &c : cfgs) {
            double prev = nf * (1 + 1e-14);
            bool solved = false;
            std::string sub = std::string(c.type) + (c.pside ? std::string(".") + c.pside : std::string()) + (c.Mextra ? ".M30" : "");
            for (int k = 1; k <= n + 2; ++k) {
                boost::property_tree::ptree p;
                p.put("solver.type", c.type); p.put("solver.tol", 0.0); p.put("solver.maxiter", k);
                if (c.pside) p.put("solver.pside", c.pside);
                if (std::string(c.type) == "gmres" || std::string(c.type) == "fgmres" || std::string(c.type) == "lgmres") p.put("solver.M", c.Mextra ? 30 : n);
                if (c.K) p.put("solver.K", c.K);
                if (std::string(c.type) == "idrs") p.put("solver.s", std::min(n, 4));
                std::vector<V> x(n, V(0));
                size_t it = 0; double res = 0; bool threw = false;
                try { S solve(std::make_tuple((size_t)n, s.ptr, s.col, s.val), p); std::tie(it, res) = solve(f, x); }
                catch (const std::exception &e) { threw = true; }
                vf::count("solves");
                if (threw) { if (c.monotone) vf::fail("stagnation.exception." + sub, key, vf::KS() << s.name << " k=" << k << ": exception from a residual-minimising method on a permutation-type matrix"); else vf::count("breakdown_exceptions"); break; }
                bool fin; double tr = tres(s, f, x, fin);
                if (!fin || !std::isfinite(tr)) { vf::fail("stagnation.nonfinite_iterate." + sub, key, vf::KS() << s.name << " maxiter=" << k << ": iterate contains NaN/Inf (reported residual " << res << ")"); break; }
                if (c.monotone) {
                    if (tr > prev * (1 + 1e-12) + 1e-13) { vf::fail("stagnation.residual_increases." + sub, key, vf::KS() << s.name << " maxiter=" << k << ": true residual " << tr << " after " << prev); break; }
                    prev = tr;
                    if (std::abs(res * nf - tr) > 1e-12 * nf) { vf::fail("stagnation.reported_residual." + sub, key, vf::KS() << s.name << " maxiter=" << k << ": reported " << res * nf << " true " << tr); break; }
                }
                if ((int)it > k + (std::string(c.type) == "bicgstabl" ? 1 : 0)) { vf::fail("stagnation.itercount." + sub, key, vf::KS() << "iters " << it << " > maxiter " << k); break; }
                if (tr <= 1e-12 * nf) { solved = true; if (k > n && c.monotone) vf::fail("stagnation.not_solved_within_n." + sub, key, vf::KS() << s.name << ": solved only at maxiter=" << k << " > n=" << n); break; }
            }
            if (c.monotone && !solved && !vf::S().viol_total) vf::fail("stagnation.not_solved_within_n." + sub, key, vf::KS() << s.name << ": not solved after " << n + 2 << " iterations");
        }
    }
    vf::space(std::string("stagnating permutation-type systems n=2..7 x 4 structures x 3 scalings x 3 right-hand sides x {gmres l/r, gmres M=30, fgmres, lgmres K=1,2, bicgstabl, idrs} x maxiter 1..n+2, value type ") + vt);
}

// ------------------------------------------------------------------------------------------------------------------
// "With maxiter = k ...": prm is a public member that every solver reads at solve time, so a LIVE object whose prm.maxiter
// is set to k must return what a fresh object constructed with maxiter = k returns (same x0, same rhs), bit for bit.
// Sequences: constructed with maxiter = 1 and raised (1,3,2,n,n+2); constructed with maxiter = n+2 and lowered (n+2,2,n,1,3).
#include <amgcl/solver/cg.hpp>
#include <amgcl/solver/bicgstab.hpp>
#include <amgcl/solver/bicgstabl.hpp>
#include <amgcl/solver/gmres.hpp>
#include <amgcl/solver/fgmres.hpp>
#include <amgcl/solver/lgmres.hpp>
#include <amgcl/solver/idrs.hpp>
#include <amgcl/solver/richardson.hpp>
typedef backend::builtin<double> RB;
struct RSys { int n; std::vector<ptrdiff_t> ptr, col; std::vector<double> val, f, x0; };
static RSys reconf_system(int n, bool sym) {
    RSys s; s.n = n; s.ptr.push_back(0);
    for (int i = 0; i < n; ++i) {
        for (int j = 0; j < n; ++j) {
            if (std::abs(i - j) > 2 && !(i == 0 && j == n - 1) && !(j == 0 && i == n - 1)) continue;
            double v = (i == j) ? 6.0 + 0.5 * (i % 3) : -(1.0 + 0.25 * ((std::min(i, j) * 3 + std::max(i, j)) % 4));
            if (!sym && i < j) v *= 0.5;
            if (!sym && i > j && (i + j) % 3 == 0) v = 0.75;
            s.col.push_back(j); s.val.push_back(v);
        }
        s.ptr.push_back((ptrdiff_t)s.col.size());
    }
    for (int i = 0; i < n; ++i) { s.f.push_back(1.0 + (i * 5) % 7 - 0.125 * i); s.x0.push_back(0.25 * ((i * 3) % 5) - 0.5); }
    return s;
}
template <class S, class Setup>
static void reconf_one(const char *name, const RSys &sy, const std::string &key, Setup &&setup) {
    auto At = std::make_tuple((size_t)sy.n, sy.ptr, sy.col, sy.val);
    preconditioner::dummy<RB> P(At);
    auto fresh = [&](int k, std::vector<double> &x, size_t &it, double &res) {
        typename S::params p; setup(p); p.maxiter = k; p.tol = 0;
        S slv(sy.n, p); x = sy.x0; std::tie(it, res) = slv(P.system_matrix(), P, sy.f, x); };
    const int n = sy.n;
    const int up[5] = {1, 3, 2, n, n + 2}, down[5] = {n + 2, 2, n, 1, 3};
    for (int dir = 0; dir < 2; ++dir) {
        const int *seq = dir ? down : up;
        typename S::params p0; setup(p0); p0.maxiter = seq[0]; p0.tol = 0;
        S live(sy.n, p0);
        for (int q = 0; q < 5; ++q) {
            int k = seq[q];
            live.prm.maxiter = k;
            std::vector<double> xl = sy.x0, xf; size_t il = 0, iF = 0; double rl = 0, rf = 0;
            std::string el, ef;
            try { std::tie(il, rl) = live(P.system_matrix(), P, sy.f, xl); } catch (const std::exception &e) { el = e.what(); }
            try { fresh(k, xf, iF, rf); } catch (const std::exception &e) { ef = e.what(); }
            vf::count("reconfigured_solves");
            bool same = el == ef && (!el.empty() || (il == iF && std::memcmp(&rl, &rf, sizeof rl) == 0 && std::memcmp(xl.data(), xf.data(), xl.size() * sizeof(double)) == 0));
            if (!same) {
                double worst = 0; if (el.empty() && ef.empty()) for (int i = 0; i < n; ++i) worst = std::max(worst, std::abs(xl[i] - xf[i]));
                vf::fail(std::string("reconfigured.maxiter.") + name, key, vf::KS() << "object constructed with maxiter=" << seq[0] << ", prm.maxiter set to " << k << " (step " << q << " of the " << (dir ? "lowering" : "raising") << " sequence): iterations " << il << " vs fresh " << iF
                    << ", residual " << rl << " vs " << rf << ", max |x - x_fresh| = " << worst << (el.empty() && ef.empty() ? std::string() : " exceptions '" + el + "' / '" + ef + "'"));
                break;
            }
        }
    }
}
static void run_reconfigured() {
    for (int n : {5, 8}) for (int sym = 0; sym < 2; ++sym) {
        std::string key = vf::KS() << "reconf|" << n << "|" << (sym ? "sym" : "nonsym");
        if (!vf::take([&]{ return key; })) continue;
        RSys sy = reconf_system(n, sym);
        vf::nontrivial(vf::hstr(key));
        if (sym) reconf_one<solver::cg<RB>>("cg", sy, key, [](solver::cg<RB>::params &) {});
        reconf_one<solver::bicgstab<RB>>("bicgstab", sy, key, [](solver::bicgstab<RB>::params &) {});
        for (int L : {1, 2}) reconf_one<solver::bicgstabl<RB>>("bicgstabl", sy, key, [L](solver::bicgstabl<RB>::params &p) { p.L = L; });
        for (int M : {2, 4, 30}) {
            reconf_one<solver::gmres<RB>>("gmres", sy, key, [M](solver::gmres<RB>::params &p) { p.M = M; });
            reconf_one<solver::gmres<RB>>("gmres.left", sy, key, [M](solver::gmres<RB>::params &p) { p.M = M; p.pside = preconditioner::side::left; });
            reconf_one<solver::fgmres<RB>>("fgmres", sy, key, [M](solver::fgmres<RB>::params &p) { p.M = M; });
            reconf_one<solver::lgmres<RB>>("lgmres", sy, key, [M](solver::lgmres<RB>::params &p) { p.M = M; p.K = 2; });
        }
        for (int sdim : {1, 3}) reconf_one<solver::idrs<RB>>("idrs", sy, key, [sdim](solver::idrs<RB>::params &p) { p.s = sdim; });
        reconf_one<solver::richardson<RB>>("richardson", sy, key, [](solver::richardson<RB>::params &p) { p.damping = 0.5; });
    }
    vf::space("live solver objects reconfigured through prm.maxiter (raised from 1, lowered from n+2) vs fresh objects: n in {5,8} x {symmetric, non-symmetric} x {cg, bicgstab, bicgstabl L=1,2, gmres l/r M=2,4,30, fgmres, lgmres, idrs s=1,3, richardson}");
}

// ------------------------------------------------------------------------------------------------------------------
// BiCGStab(L) with reliable updates (prm.delta > 0): the correction accumulated since the last update is flushed into x and the
// residual is recomputed from x; in exact arithmetic the iterates are those of delta = 0.  Right (default) and left side, a real
// preconditioner (SPAI-0), non-zero initial guess.
#include <amgcl/relaxation/spai0.hpp>
#include <amgcl/relaxation/as_preconditioner.hpp>
static void run_reliable_updates() {
    typedef relaxation::as_preconditioner<RB, relaxation::spai0> PC;
    typedef solver::bicgstabl<RB> SL;
    for (int n : {8, 14}) for (int sym = 0; sym < 2; ++sym) {
        std::string key = vf::KS() << "relupd|" << n << "|" << (sym ? "sym" : "nonsym");
        if (!vf::take([&]{ return key; })) continue;
        RSys sy = reconf_system(n, sym);
        auto At = std::make_tuple((size_t)sy.n, sy.ptr, sy.col, sy.val);
        PC P(At);
        vf::nontrivial(vf::hstr(key));
        long double fn = 0; for (double v : sy.f) fn += (long double)v * v; fn = sqrtl(fn);
        for (int L : {1, 2, 4}) for (int side = 0; side < 2; ++side) for (double delta : {1e-2, 1e-1, 0.5}) {
            bool bad = false;
            for (int k = L; k <= 3 * n && !bad; k += L) {
                std::vector<double> x0 = sy.x0, xd = sy.x0; size_t i0, id; double r0, rd;
                SL::params p; p.L = L; p.maxiter = k; p.tol = 0; p.pside = side ? preconditioner::side::left : preconditioner::side::right;
                try {
                    { SL s(sy.n, p); std::tie(i0, r0) = s(P.system_matrix(), P, sy.f, x0); }
                    p.delta = delta;
                    { SL s(sy.n, p); std::tie(id, rd) = s(P.system_matrix(), P, sy.f, xd); }
                } catch (const std::exception &) { vf::count("relupd_breakdown_exceptions"); break; }
                vf::count("reliable_update_pairs");
                long double tr = 0, d = 0, xs = 0;
                for (int i = 0; i < n; ++i) { long double a = sy.f[i]; for (auto j = sy.ptr[i]; j < sy.ptr[i + 1]; ++j) a -= (long double)sy.val[j] * xd[sy.col[j]]; tr += a * a; d = std::max<long double>(d, fabsl((long double)xd[i] - x0[i])); xs = std::max<long double>(xs, fabsl((long double)x0[i])); }
                tr = sqrtl(tr) / fn;
                // both runs are rounding perturbations of the same recurrence; far from breakdown they agree to many digits.  Judged only
                // while the delta = 0 residual is above 1e-9 (below that the two runs are dominated by different rounding histories)
                if (r0 > 1e-9 && d > 1e-6 * std::max<long double>(1, xs)) { vf::fail("bicgstabl.reliable_update.iterate", key, vf::KS() << "L=" << L << " side=" << (side ? "left" : "right") << " delta=" << delta << " maxiter=" << k << ": max |x_k(delta) - x_k(0)| = " << (double)d << " (|x| " << (double)xs << "), residuals " << rd << " vs " << r0 << ", true residual of the delta run " << (double)tr); bad = true; }
                // right side: the reported value is the relative residual of x itself.  Left side: it is the residual of the
                // preconditioned system (by design), so it is compared with the delta = 0 run's reported value instead
                if (!bad && side == 1) { if (r0 > 1e-9 && std::abs(rd - r0) > 1e-6 * std::max(r0, 1e-9)) { vf::fail("bicgstabl.reliable_update.reported_residual_left", key, vf::KS() << "L=" << L << " side=left delta=" << delta << " maxiter=" << k << ": reported " << rd << " vs " << r0 << " with delta=0"); bad = true; } }
                else if (!bad && fabsl((long double)rd - tr) > 1e-8L + 1e-6L * tr) { vf::fail("bicgstabl.reliable_update.reported_residual", key, vf::KS() << "L=" << L << " side=" << (side ? "left" : "right") << " delta=" << delta << " maxiter=" << k << ": reported " << rd << " true " << (double)tr); bad = true; }
            }
        }
    }
    vf::space("BiCGStab(L) reliable updates: n in {8,14} x {symmetric, non-symmetric} x L {1,2,4} x side {right,left} x delta {0.01,0.1,0.5} x maxiter = L,2L,..,3n: iterates vs delta = 0, reported vs true residual");
}

int main(int argc, char **argv) {
    vf::init(argc, argv, "C05");
    vf::sample_str("stagnation case: cyclic shift n=5 (A e_j = e_{j+1}), f = e_1, x0 = 0, identity preconditioner, GMRES(5): the residual stays 1 for 4 steps (H(j,j) = 0 exactly) and the system is solved at step 5");
    if (vf::section("stag")) { run<double>("double"); run<std::complex<double>>("cdouble"); }
    if (vf::section("reconf")) run_reconfigured();
    if (vf::section("relupd")) run_reliable_updates();
    return vf::finish();
}
