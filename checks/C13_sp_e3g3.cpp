// C13 unit "solve": path TU for Eigen::Matrix blocks, b=3, path group 3 (see C13_solve_paths.cpp)
#define C13_B 3
#define C13_EIGEN 1
#define C13_GROUP 3
#include "C13_solve_paths.cpp"
