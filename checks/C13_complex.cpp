// C13 unit "complex" -- a complex system and its real-equivalent 2n x 2n form (adapter::complex_matrix / complex_range) have
// the same solution.
//
// case = (complex system, coarsening, relaxation, solver).  Formulations solved inside a case:
//   complex      make_solver< amg<builtin<complex<double>>, rt, rt>, rt solver > on the complex CRS tuple
//   real         make_solver< amg<builtin<double>, rt, rt>, rt solver > on adapter::complex_matrix(tuple), vectors through
//                adapter::complex_range;   real.bs2: the same with aggr.block_size = 2 (re/im of one unknown aggregated together)
//   real_block2  make_solver< amg<builtin<static_matrix<double,2,2>>, rt, rt>, rt solver > on block_matrix<2x2>(complex_matrix(tuple))
//   each real formulation in both call forms S(rhs,x) and S(A,rhs,x)
// sub-checks:
//   cx.operator.<form>   level-0 matrix of the real formulations == real-equivalent [re -im; im re] of the complex matrix (dyadic values, ==)
//   cx.truthful.<form>   |reported - true| <= bound, true = ||f - A x||/||f|| of the COMPLEX system in long double (the 2-norm of the
//                        interleaved real vector equals the complex 2-norm), bound as DESIGN C01/FA with kappa2 of the complex matrix
//   cx.tol.<form>        reported < 1e-8 => true <= 1e-8 (1+1e-6) + bound
//   cx.same_solution.<form>  both the complex and the real formulation converged:  ||x_c - x_r|| <= (||r_c|| + ||r_r||)/sigma_min(A) (1+1e-6)
//                        (exact consequence of x_c - x_r = A^-1 (r_r - r_c); r in long double)
//   cx.solves.<form>     the complex formulation converged but the real-equivalent one did not return a solution (or vice versa:
//                        cx.solves.complex)
//   smoothed_aggr_emin on non-Hermitian systems: only cx.operator / cx.iters are judged (see C13.json assumptions)
//   cx.exception.<form>  exception that is neither a Krylov breakdown precondition nor "not supported" nor raised by the other formulation too
#define AMGCL_PARAM_UNKNOWN(name) throw std::logic_error(std::string("HARNESS: unknown parameter ") + std::string(name))
#include <complex>
#include <tuple>
#include <boost/property_tree/ptree.hpp>
#include <amgcl/backend/builtin.hpp>
#include <amgcl/value_type/complex.hpp>
#include <amgcl/value_type/static_matrix.hpp>
#include <amgcl/adapter/crs_tuple.hpp>
#include <amgcl/adapter/complex.hpp>
#include <amgcl/adapter/block_matrix.hpp>
#include <amgcl/make_solver.hpp>
#include <amgcl/amg.hpp>
#include <amgcl/coarsening/runtime.hpp>
#include <amgcl/relaxation/runtime.hpp>
#include <amgcl/solver/runtime.hpp>
#include "vf.hpp"
#include "C13_common.hpp"

using namespace amgcl;
using c13::ld; using c13::cplx;
typedef boost::property_tree::ptree ptree;
typedef backend::builtin<cplx> CB;
typedef backend::builtin<double> RB;
typedef static_matrix<double, 2, 2> Blk2;
typedef backend::builtin<Blk2> B2;
template <class B> using RtSolver = make_solver<amg<B, runtime::coarsening::wrapper, runtime::relaxation::wrapper>, runtime::solver::wrapper<B>>;

struct Out { bool threw = false; std::string what; size_t iters = 0; double resid = 0; std::vector<cplx> x; int levels = 0; std::string opdiff; };
struct Cfg { std::string c, r, s; int coarse_enough; int maxiter = 100; };

static ptree params(const Cfg &g, int scale, int block_size) {
    ptree p; p.put("precond.coarsening.type", g.c); p.put("precond.relax.type", g.r); p.put("solver.type", g.s); p.put("solver.maxiter", g.maxiter);
    p.put("precond.coarse_enough", g.coarse_enough * scale);
    if (block_size > 1 && g.c != "ruge_stuben") p.put("precond.coarsening.aggr.block_size", block_size);
    return p;
}
template <class S> static int levels_of(const S &s) { std::ostringstream os; os << s.precond(); auto t = os.str(); auto p = t.find("Number of levels:"); return p == std::string::npos ? 0 : std::atoi(t.c_str() + p + 17); }

template <class M> static std::string opdiff_real(const M &L, const sg::Crs<cplx> &A) {
    typedef typename backend::value_type<M>::type V;
    const int bs = math::static_rows<V>::value; int n = 2 * A.n; std::ostringstream e;
    if ((int)backend::rows(L) * bs != n) { e << "level-0 matrix has " << backend::rows(L) * bs << " scalar rows, expected " << n; return e.str(); }
    std::vector<double> D((size_t)n * n, 0.0), R((size_t)n * n, 0.0);
    for (int i = 0; i < A.n; ++i) for (ptrdiff_t j = A.ptr[i]; j < A.ptr[i + 1]; ++j) { int c = (int)A.col[j]; double re = A.val[j].real(), im = A.val[j].imag();
        R[(size_t)(2 * i) * n + 2 * c] += re; R[(size_t)(2 * i) * n + 2 * c + 1] += -im; R[(size_t)(2 * i + 1) * n + 2 * c] += im; R[(size_t)(2 * i + 1) * n + 2 * c + 1] += re; }
    for (size_t I = 0; I < backend::rows(L); ++I) for (auto a = backend::row_begin(L, I); a; ++a) {
        V v = a.value();
        if constexpr (math::static_rows<V>::value > 1) { for (int p = 0; p < bs; ++p) for (int q = 0; q < bs; ++q) D[(size_t)(I * bs + p) * n + (a.col() * bs + q)] += v(p, q); }
        else D[(size_t)I * n + a.col()] += v;
    }
    for (int i = 0; i < n; ++i) for (int j = 0; j < n; ++j) if (!(D[(size_t)i * n + j] == R[(size_t)i * n + j])) { e << "real-equivalent entry (" << i << "," << j << ") = " << D[(size_t)i * n + j] << ", expected " << R[(size_t)i * n + j]; return e.str(); }
    return "";
}

static Out run_complex(const sg::Crs<cplx> &A, const Cfg &g, const std::vector<cplx> &f) {
    Out o;
    try {
        int n = A.n; std::vector<ptrdiff_t> ptr = A.ptr, col = A.col; std::vector<cplx> val = A.val; auto At = std::tie(n, ptr, col, val);
        RtSolver<CB> S(At, params(g, 1, 1));
        o.levels = levels_of(S); o.x.assign(n, cplx());
        std::tie(o.iters, o.resid) = S(f, o.x);
    } catch (const std::exception &e) { o.threw = true; o.what = e.what(); }
    return o;
}
// kind 0: scalar real, block_size 1;  1: scalar real, aggr.block_size 2;  2: 2x2 block value type
static Out run_real(const sg::Crs<cplx> &A, const Cfg &g, const std::vector<cplx> &f, int kind, int form) {
    Out o;
    try {
        int n = A.n; std::vector<ptrdiff_t> ptr = A.ptr, col = A.col; std::vector<cplx> val = A.val; auto At = std::tie(n, ptr, col, val);
        auto Ar = adapter::complex_matrix(At);
        o.x.assign(n, cplx());
        const auto F = adapter::complex_range(f); auto X = adapter::complex_range(o.x);
        if (kind < 2) {
            RtSolver<RB> S(Ar, params(g, 2, kind == 1 ? 2 : 1));
            o.levels = levels_of(S); o.opdiff = opdiff_real(S.system_matrix(), A);
            if (form == 0) std::tie(o.iters, o.resid) = S(F, X); else std::tie(o.iters, o.resid) = S(Ar, F, X);
        } else {
            auto Ab = adapter::block_matrix<Blk2>(Ar);
            RtSolver<B2> S(Ab, params(g, 1, 1));
            o.levels = levels_of(S); o.opdiff = opdiff_real(S.system_matrix(), A);
            auto Fb = backend::reinterpret_as_rhs<Blk2>(F); auto Xb = backend::reinterpret_as_rhs<Blk2>(X);
            if (form == 0) std::tie(o.iters, o.resid) = S(Fb, Xb); else std::tie(o.iters, o.resid) = S(Ab, Fb, Xb);
        }
    } catch (const std::exception &e) { o.threw = true; o.what = e.what(); }
    return o;
}

struct Sys { std::string id, descr; sg::Crs<cplx> A; bool herm = false; bool have = false; sg::SvdInfo sv; std::vector<cplx> f; ld fn = 0;
    void prepare() { if (!have) { sv = sg::svd_info(A); f = c13::gen_rhs<cplx>(A.n); fn = sg::norm2_ld(f); have = true; } } };
static bool hermitian(const sg::Crs<cplx> &A) { auto D = sg::dense(A); for (int i = 0; i < A.n; ++i) for (int j = 0; j <= i; ++j) if (D(i, j) != std::conj(D(j, i))) return false; return true; }

static std::vector<Sys> systems(bool T) {
    std::vector<Sys> out;
    auto add = [&](const std::string &id, const std::string &d, sg::Crs<cplx> A) { Sys s; s.id = id; s.descr = d; s.A = std::move(A); s.herm = hermitian(s.A); out.push_back(std::move(s)); };
    // every 3x3 pattern with stored dominant diagonal: Hermitian (8 symmetric patterns) and complex shifted (64 patterns); n = 4 in thorough
    for (uint32_t m = 0; m < 8; ++m) add(vf::KS() << "h3m" << m, vf::KS() << "3x3 Hermitian positive definite, pattern " << m, sg::dominant_pattern<cplx>(3, m, sg::PAT_CHERM));
    for (uint32_t m = 0; m < 64; ++m) { if (!T && m % 3 != 0) continue; add(vf::KS() << "s3m" << m, vf::KS() << "3x3 complex shifted (i*sigma on the diagonal), pattern " << m, sg::dominant_pattern<cplx>(3, m, sg::PAT_CSHIFT)); }
    if (T) {
        for (uint32_t m = 0; m < 64; ++m) add(vf::KS() << "h4m" << m, vf::KS() << "4x4 Hermitian positive definite, pattern " << m, sg::dominant_pattern<cplx>(4, m, sg::PAT_CHERM));
        for (uint32_t m = 0; m < 4096; ++m) if (sg::pattern_sym_or_triangular(4, m)) add(vf::KS() << "s4m" << m, vf::KS() << "4x4 complex shifted, pattern " << m, sg::dominant_pattern<cplx>(4, m, sg::PAT_CSHIFT));
    }
    // grids
    std::vector<std::array<int, 2>> grids = {{2, 2}, {3, 3}, {4, 3}};
    if (T) { grids.push_back({5, 5}); grids.push_back({6, 4}); grids.push_back({8, 1}); }
    for (auto g : grids) {
        for (double sh : (T ? std::vector<double>{0.25, 1} : std::vector<double>{0.25})) add(vf::KS() << "hg" << g[0] << "x" << g[1] << "s" << sh, vf::KS() << "Hermitian magnetic Laplacian " << g[0] << "x" << g[1] << " + " << sh << " I", sg::complex_hermitian_laplacian(g[0], g[1], sh));
        for (auto s : (T ? std::vector<std::array<double, 2>>{{0.25, 0.5}, {0.25, 2}, {0, 1}, {1, -1}} : std::vector<std::array<double, 2>>{{0.25, 1}, {0, 1}}))
            add(vf::KS() << "sg" << g[0] << "x" << g[1] << "s" << s[0] << "," << s[1], vf::KS() << "shifted Laplacian " << g[0] << "x" << g[1] << " + (" << s[0] << "+" << s[1] << "i) I", sg::complex_shifted_laplacian(g[0], g[1], s[0], s[1]));
    }
    return out;
}

static bool allowed_breakdown(const std::string &w) { return w.find("Zero rho") != std::string::npos || w.find("Zero omega") != std::string::npos || w.find("breakdown") != std::string::npos; }
static bool unsupported(const std::string &w) { return w.find("not supported") != std::string::npos; }

struct Judged { bool usable = false, conv = false; ld rabs = 0; };
static Judged judge(const std::string &key, const std::string &tag, Sys &S, const Cfg &g, const Out &o, const Out &other, const std::string &in) {
    Judged J;
    vf::count("runs." + tag);
    // smoothed_aggr_emin on a non-Hermitian matrix: the energy-minimising prolongation can lose rank (the coarse operator is then
    // singular or garbage in EVERY formulation, the complex one included); only the operator and iteration-count clauses are judged
    const bool emin_nh = (g.c == "smoothed_aggr_emin" && !S.herm);
    if (o.threw) {
        if (emin_nh && !unsupported(o.what) && o.what.find("HARNESS") == std::string::npos) { vf::count("emin_nonhermitian_not_judged." + tag); return J; }
        if (unsupported(o.what)) { vf::count("unsupported." + tag); return J; }
        if (o.what.find("HARNESS") != std::string::npos) { vf::fail("harness.param", key, o.what + in); return J; }
        if (allowed_breakdown(o.what)) { vf::count("breakdown_exception." + tag); return J; }
        if (other.threw && other.what == o.what) { vf::count("same_exception_in_both." + tag); return J; }
        if (g.c == "ruge_stuben" && o.what.find("not divisible by block size") != std::string::npos) { vf::count("ruge_stuben_level_not_divisible." + tag); return J; }
        vf::fail("cx.exception." + tag, key, "exception '" + o.what + "'" + (other.threw ? " (other formulation threw '" + other.what + "')" : " (other formulation did not throw)") + in);
        return J;
    }
    if (o.levels >= 2) vf::count("levels_ge_2." + tag);
    if (!o.opdiff.empty()) vf::fail("cx.operator." + tag, key, o.opdiff + in);
    if (o.iters > (size_t)g.maxiter + (g.s == "bicgstabl" ? 1 : 0)) vf::fail("cx.iters." + tag, key, vf::KS() << "iters=" << o.iters << in);
    if (emin_nh) { vf::count("emin_nonhermitian_not_judged." + tag); return J; }
    if (!c13::all_finite(o.x) || !std::isfinite(o.resid)) { vf::count("nonfinite." + tag); return J; }
    J.usable = true;
    J.rabs = sg::true_residual(S.A, S.f, o.x);
    ld tr = J.rabs / S.fn;
    ld bd = c13::bound(o.iters, S.A.n, S.sv, 0, sg::norm2_ld(o.x), S.fn, o.resid);
    ld diff = fabsl((ld)o.resid - tr);
    if (o.resid > 1 || tr > 1) vf::count("diverged_not_judged_for_truthfulness." + tag);
    else if (o.resid < 1e-8 && !(tr <= 1e-8L * (1 + 1e-6L) + bd)) vf::fail("cx.tol." + tag, key, vf::KS() << "reported=" << o.resid << " < tol but true=" << (double)tr << in);
    else if (!(diff <= bd) && !(o.resid < 1e-8 && tr < 1e-8L)) vf::fail("cx.truthful." + tag, key, vf::KS() << "reported=" << o.resid << " true=" << (double)tr << " |diff|=" << (double)diff << " > bound=" << (double)bd << " iters=" << o.iters << " kappa=" << S.sv.kappa << in);
    else if (!(diff <= bd)) vf::count("margin.gap_above_bound_but_both_below_tol");
    J.conv = o.resid < 1e-8 && tr <= 1e-8L * (1 + 1e-6L) + bd;
    if (J.conv) vf::count("converged." + tag);
    if (o.iters >= 2) vf::count("iters_ge_2." + tag);
    return J;
}

// early-stopped probe (maxiter = 2): two-sided bound as derived (see C13_solve_main.cpp)
static void judge_early(const std::string &key, const std::string &tag, Sys &S, const Cfg &g, const Out &o, const std::string &in) {
    if (o.threw || (g.c == "smoothed_aggr_emin" && !S.herm)) return;
    if (!c13::all_finite(o.x) || !std::isfinite(o.resid)) return;
    ld tr = sg::true_residual(S.A, S.f, o.x) / S.fn;
    ld bd = c13::bound(o.iters, S.A.n, S.sv, 0, sg::norm2_ld(o.x), S.fn, o.resid);
    ld diff = fabsl((ld)o.resid - tr);
    vf::count(tr > 1e-6L ? "early.residual_above_1e-6" : "early.residual_below_1e-6");
    if (o.resid > 1 || tr > 1) return;
    if (!(diff <= bd)) vf::fail("cx.truthful_early." + tag, key, vf::KS() << "maxiter=2 reported=" << o.resid << " true=" << (double)tr << " |diff|=" << (double)diff << " > bound=" << (double)bd << " iters=" << o.iters << in);
}

int main(int argc, char **argv) {
    vf::init(argc, argv, "C13");
    const bool T = vf::thorough();
    std::vector<std::string> coars = {"aggregation", "smoothed_aggregation", "smoothed_aggr_emin", "ruge_stuben"};
    std::vector<std::string> relax = {"spai0", "damped_jacobi", "gauss_seidel", "ilu0", "iluk", "ilut", "ilup", "chebyshev", "spai1"};
    if (vf::section("cs")) {
        auto sys = systems(T);
        size_t ncase = 0;
        for (auto &S : sys) {
            std::vector<std::string> solvers = S.herm ? std::vector<std::string>{"cg", "bicgstab", "gmres"} : std::vector<std::string>{"bicgstab", "gmres"};
            if (T) { solvers.push_back("lgmres"); solvers.push_back("fgmres"); solvers.push_back("bicgstabl"); }      // idrs / richardson: see C13_solve_main.cpp
            for (auto &c : coars) for (auto &r : relax) for (auto &sv : solvers) {
                // Complex-shifted (non-Hermitian) systems: components whose definition presupposes a real positive spectrum / an M-matrix
                // (chebyshev relaxation, ruge_stuben coarsening -- the latter is not offered for complex values at all) and the
                // BiCGStab(L) recurrence (residual gap near breakdown: C01's subject) are not part of the comparison.
                if (!S.herm && (r == "chebyshev" || c == "ruge_stuben" || sv == "bicgstabl")) continue;
                ++ncase;
                if (!vf::take([&] { return std::string(vf::KS() << "cs|" << S.id << "|" << c << "|" << r << "|" << sv); })) continue;
                std::string key = vf::KS() << "cs|" << S.id << "|" << c << "|" << r << "|" << sv;
                S.prepare();
                Cfg g{c, r, sv, S.A.n <= 4 ? 1 : 2};
                const std::string in0 = vf::KS() << " :: " << c << "+" << r << "+" << sv << " :: " << S.descr << " A=" << sg::show(S.A);
                Out oc = run_complex(S.A, g, S.f);
                static const char *kn[3] = {"real", "real.bs2", "real_block2"};
                bool first = true; bool any2 = oc.levels >= 2 || oc.iters >= 2;
                Judged Jc;
                for (int kind = 0; kind < 3; ++kind) for (int form = 0; form < 2; ++form) {
                    std::string tag = std::string(kn[kind]) + (form ? ".A" : "");
                    const std::string in = std::string(" :: form=") + (form ? "S(A,rhs,x)" : "S(rhs,x)") + in0;
                    Out orl = run_real(S.A, g, S.f, kind, form);
                    if (first) {
                        Jc = judge(key, "complex", S, g, oc, orl, in0); first = false;
                        if (!oc.threw) { if (oc.iters > 2) { Cfg ge = g; ge.maxiter = 2; judge_early(key, "complex", S, ge, run_complex(S.A, ge, S.f), in0); } else judge_early(key, "complex", S, g, oc, in0); }
                    }
                    Judged Jr = judge(key, tag, S, g, orl, oc, in);
                    if (!orl.threw) { if (orl.iters > 2) { Cfg ge = g; ge.maxiter = 2; judge_early(key, tag, S, ge, run_real(S.A, ge, S.f, kind, form), in); } else judge_early(key, tag, S, g, orl, in); }
                    if (!orl.threw && (orl.levels >= 2 || orl.iters >= 2)) any2 = true;
                    if (Jc.conv && Jr.conv) {
                        ld d = 0; for (int i = 0; i < S.A.n; ++i) d += sg::abs2_ld(oc.x[i] - orl.x[i]); d = sqrtl(d);
                        ld lim = (Jc.rabs + Jr.rabs) / (ld)S.sv.smin * (1 + 1e-6L) + 64 * (ld)c13::U * sg::norm2_ld(oc.x);
                        vf::count("same_solution_compared." + tag);
                        if (!(d <= lim)) vf::fail("cx.same_solution." + tag, key, vf::KS() << "||x_c - x_r||=" << (double)d << " > (||r_c||+||r_r||)/sigma_min=" << (double)lim << in);
                    } else if (Jc.conv && !Jr.conv && !orl.threw) {
                        vf::fail("cx.solves." + tag, key, vf::KS() << "complex formulation converged (" << oc.iters << " its, " << oc.resid << "), real-equivalent did not: " << orl.iters << " its, reported " << orl.resid << in);
                    } else if (Jr.conv && !Jc.conv && !oc.threw && kind == 0 && form == 0) {
                        vf::fail("cx.solves.complex", key, vf::KS() << "real-equivalent formulation converged (" << orl.iters << " its, " << orl.resid << "), complex one did not: " << oc.iters << " its, reported " << oc.resid << in);
                    }
                }
                if (any2) vf::nontrivial(vf::hstr(key));
            }
        }
        vf::space(vf::KS() << sys.size() << " complex systems (all 3x3" << (T ? " and 4x4" : "") << " Hermitian / shifted dominant patterns, magnetic and shifted Laplacians on small grids) x 4 coarsenings x 9 relaxations x solvers = " << ncase << " cases x (complex + 3 real-equivalent formulations x 2 call forms)");
    }
    vf::sample_str("cs|s3m21: " + sg::show(sg::dominant_pattern<cplx>(3, 21, sg::PAT_CSHIFT)));
    return vf::finish();
}
