// C03 unit "adjoint" -- "R is the adjoint of P" and "A_coarse = R A P" for value types where the adjoint is not the transpose:
// std::complex<double> (Hermitian matrices with unit-modulus phases on the edges) and static_matrix<double,2,2> with
// non-symmetric coupling blocks (A_ji = A_ij^T, so the scalar expansion is symmetric).  The real-scalar units of this check
// cannot tell P^T from P^H.
// Space: every connected labelled graph on 3..5 nodes (thorough: ..6) x 2 value rules per type x {aggregation,
// smoothed_aggregation} (+ ruge_stuben for the real 2x2... not offered for these value types, skipped) x eps_strong {0.08, 0.5}.
// Oracles: R(q,i) == adjoint(P(i,q)) entry for entry, exactly (conjugation / block transposition are exact); the coarse
// operator equals s * R A P against a dense long double reference (s = 1/over_interp as float for plain aggregation, 1
// otherwise) within k u sum|terms|; for Hermitian A the coarse operator is Hermitian to the same bound.
#include <complex>
#include <amgcl/backend/builtin.hpp>
#include <amgcl/value_type/complex.hpp>
#include <amgcl/value_type/static_matrix.hpp>
#include <amgcl/coarsening/aggregation.hpp>
#include <amgcl/coarsening/smoothed_aggregation.hpp>
#include <cmath>
#include "vf.hpp"

using namespace amgcl;
typedef std::complex<double> cplx;
typedef std::complex<long double> lcplx;
typedef static_matrix<double, 2, 2> Blk;

// a value as a small dense complex matrix (1x1 for complex, 2x2 for blocks), long double
struct E { int b; lcplx a[4]; };
static E ent(cplx z) { E e; e.b = 1; e.a[0] = lcplx(z.real(), z.imag()); return e; }
static E ent(const Blk &m) { E e; e.b = 2; for (int i = 0; i < 4; ++i) e.a[i] = lcplx(m(i / 2, i % 2), 0); return e; }
static cplx adj(cplx z) { return std::conj(z); }
static Blk adj(const Blk &m) { Blk t; for (int i = 0; i < 2; ++i) for (int j = 0; j < 2; ++j) t(i, j) = m(j, i); return t; }
static bool same(cplx a, cplx b) { return a == b; }
static bool same(const Blk &a, const Blk &b) { for (int i = 0; i < 4; ++i) if (a(i / 2, i % 2) != b(i / 2, i % 2)) return false; return true; }
static std::string show(cplx z) { return vf::KS() << "(" << z.real() << "," << z.imag() << ")"; }
static std::string show(const Blk &m) { return vf::KS() << "[" << m(0, 0) << " " << m(0, 1) << ";" << m(1, 0) << " " << m(1, 1) << "]"; }

template <class V> struct Dense {                 // scalar expansion, long double complex
    int m = 0, n = 0, b = 1; std::vector<lcplx> a, mag;
    Dense(int m_, int n_, int b_) : m(m_ * b_), n(n_ * b_), b(b_), a((size_t)m * n, lcplx(0)), mag((size_t)m * n, lcplx(0)) {}
    lcplx &at(int i, int j) { return a[(size_t)i * n + j]; }
    const lcplx &at(int i, int j) const { return a[(size_t)i * n + j]; }
};
template <class V> static Dense<V> dense_of(const backend::crs<V> &A) {
    const int b = math::static_rows<V>::value;
    Dense<V> D((int)A.nrows, (int)A.ncols, b);
    for (size_t i = 0; i < A.nrows; ++i) for (auto j = A.ptr[i]; j < A.ptr[i + 1]; ++j) { E e = ent(A.val[j]); for (int p = 0; p < b; ++p) for (int q = 0; q < b; ++q) D.at((int)i * b + p, (int)A.col[j] * b + q) += e.a[p * b + q]; }
    return D;
}

static int ubits(int n) { return n * (n - 1) / 2; }
static bool connected(int n, uint64_t mask) {
    std::vector<int> seen(n, 0), st{0}; seen[0] = 1; int cnt = 1;
    auto edge = [&](int i, int j) { if (i > j) std::swap(i, j); int k = 0; for (int a = 0; a < n; ++a) for (int c = a + 1; c < n; ++c, ++k) if (a == i && c == j) return (bool)((mask >> k) & 1); return false; };
    while (!st.empty()) { int v = st.back(); st.pop_back(); for (int w = 0; w < n; ++w) if (w != v && !seen[w] && edge(v, w)) { seen[w] = 1; ++cnt; st.push_back(w); } }
    return cnt == n;
}

template <class V> struct Make;
template <> struct Make<cplx> {
    static const char *name() { return "complex"; }
    static cplx off(int i, int j, int k, int rule) {      // i < j ; the (j,i) entry is the conjugate
        static const cplx ph[4] = {cplx(1, 0), cplx(0.6, 0.8), cplx(0, 1), cplx(0.8, -0.6)};
        double w = (rule == 1 && k % 3 == 2) ? 0.0625 : 1.0;
        return -w * ph[(i + 2 * j + rule) % 4];
    }
    static cplx lower(cplx u) { return std::conj(u); }
    static cplx dia(int i, int deg, int) { return cplx(deg + 1.25 + 0.25 * (i % 2), 0); }
};
template <> struct Make<Blk> {
    static const char *name() { return "block2"; }
    static Blk off(int i, int j, int k, int rule) {
        double w = (rule == 1 && k % 3 == 2) ? 0.0625 : 1.0;
        Blk u; u(0, 0) = -w; u(0, 1) = -0.5 * w * (1 + (i + j) % 2); u(1, 0) = 0.25 * w * rule; u(1, 1) = -w; return u;
    }
    static Blk lower(const Blk &u) { return adj(u); }
    static Blk dia(int i, int deg, int) { Blk d; d(0, 0) = 2 * deg + 2; d(0, 1) = 1; d(1, 0) = 1; d(1, 1) = 2 * deg + 3 + (i % 2); return d; }
};

template <class V> static std::shared_ptr<backend::crs<V>> make(int n, uint64_t mask, int rule) {
    std::vector<std::vector<V>> a(n, std::vector<V>(n, math::zero<V>())); std::vector<std::vector<char>> st(n, std::vector<char>(n, 0));
    int k = 0;
    for (int i = 0; i < n; ++i) for (int j = i + 1; j < n; ++j, ++k) if ((mask >> k) & 1) { V u = Make<V>::off(i, j, k, rule); a[i][j] = u; a[j][i] = Make<V>::lower(u); st[i][j] = st[j][i] = 1; }
    for (int i = 0; i < n; ++i) { int deg = 0; for (int j = 0; j < n; ++j) deg += st[i][j]; a[i][i] = Make<V>::dia(i, deg, rule); st[i][i] = 1; }
    auto A = std::make_shared<backend::crs<V>>(); A->set_size(n, n, true);
    for (int i = 0; i < n; ++i) for (int j = 0; j < n; ++j) if (st[i][j]) ++A->ptr[i + 1];
    A->scan_row_sizes(); A->set_nonzeros();
    for (int i = 0; i < n; ++i) { auto h = A->ptr[i]; for (int j = 0; j < n; ++j) if (st[i][j]) { A->col[h] = j; A->val[h] = a[i][j]; ++h; } }
    return A;
}

template <class V, class C> static void one(const std::string &key, const backend::crs<V> &A, C &coars, const char *cname, float scale, const std::string &at) {
    typedef backend::crs<V> Crs;
    const std::string tag = std::string(Make<V>::name()) + "." + cname;
    std::shared_ptr<Crs> P, R;
    try { std::tie(P, R) = coars.transfer_operators(A); } catch (const error::empty_level &) { vf::count("adjoint.empty_level"); return; }
    if (R->nrows != P->ncols || R->ncols != P->nrows || R->nnz != P->nnz) { vf::fail("adjoint.shape." + tag, key, vf::KS() << "P is " << P->nrows << "x" << P->ncols << " nnz " << P->nnz << ", R is " << R->nrows << "x" << R->ncols << " nnz " << R->nnz << " " << at); return; }
    // R(q,i) == adjoint(P(i,q)), exactly
    bool nontrivial_adjoint = false;
    for (size_t i = 0; i < P->nrows; ++i) for (auto j = P->ptr[i]; j < P->ptr[i + 1]; ++j) {
        auto q = P->col[j]; bool found = false;
        for (auto r = R->ptr[q]; r < R->ptr[q + 1]; ++r) if ((size_t)R->col[r] == i) {
            found = true;
            V want = adj(P->val[j]);
            if (!same(want, P->val[j])) nontrivial_adjoint = true;
            if (!same(R->val[r], want)) { vf::fail("adjoint.R_is_adjoint_of_P." + tag, key, vf::KS() << "R(" << q << "," << i << ") = " << show(R->val[r]) << " but adjoint(P(" << i << "," << q << ")) = " << show(want) << " " << at); return; }
        }
        if (!found) { vf::fail("adjoint.R_is_adjoint_of_P." + tag, key, vf::KS() << "P(" << i << "," << q << ") stored, R(" << q << "," << i << ") is not " << at); return; }
    }
    vf::count(nontrivial_adjoint ? "adjoint.checked_with_nontrivial_adjoint" : "adjoint.checked_all_entries_selfadjoint");
    // coarse operator == scale * R A P
    std::shared_ptr<Crs> Ac = coars.coarse_operator(A, *P, *R);
    Dense<V> Ad = dense_of(A), Pd = dense_of(*P), Rd = dense_of(*R), Cd = dense_of(*Ac);
    const long double U = 1.1102230246251565e-16L;
    long double worst = 0, worst_tol = 0, herm = 0, herm_tol = 0;
    std::vector<lcplx> ref((size_t)Cd.m * Cd.n, lcplx(0)); std::vector<long double> mag((size_t)Cd.m * Cd.n, 0);
    for (int i = 0; i < Cd.m; ++i) for (int j = 0; j < Cd.n; ++j) {
        lcplx s(0); long double m = 0;
        for (int k = 0; k < Ad.m; ++k) { if (Rd.at(i, k) == lcplx(0)) continue; for (int l = 0; l < Ad.n; ++l) { if (Ad.at(k, l) == lcplx(0) || Pd.at(l, j) == lcplx(0)) continue; lcplx t = Rd.at(i, k) * Ad.at(k, l) * Pd.at(l, j); s += t; m += std::abs(t); } }
        ref[(size_t)i * Cd.n + j] = s * (long double)scale; mag[(size_t)i * Cd.n + j] = m * std::abs((long double)scale);
    }
    for (int i = 0; i < Cd.m; ++i) for (int j = 0; j < Cd.n; ++j) {
        long double tol = (4 * Ad.m + 16) * U * mag[(size_t)i * Cd.n + j] * 4;
        long double d = std::abs(Cd.at(i, j) - ref[(size_t)i * Cd.n + j]);
        if (d > tol && d - tol > worst - worst_tol) { worst = d; worst_tol = tol; }
        if (d > tol) { vf::fail("adjoint.coarse_is_RAP." + tag, key, vf::KS() << "A_coarse(" << i << "," << j << ") (scalar expansion) = (" << (double)Cd.at(i, j).real() << "," << (double)Cd.at(i, j).imag() << ") but " << scale << " * (R A P) = (" << (double)ref[(size_t)i * Cd.n + j].real() << "," << (double)ref[(size_t)i * Cd.n + j].imag() << ") " << at); return; }
        long double h = std::abs(Cd.at(i, j) - std::conj(Cd.at(j, i)));
        if (h > tol + (4 * Ad.m + 16) * U * mag[(size_t)j * Cd.n + i] * 4) { vf::fail("adjoint.coarse_hermitian." + tag, key, vf::KS() << "A is Hermitian but A_coarse(" << i << "," << j << ") - conj(A_coarse(" << j << "," << i << ")) = " << (double)h << " " << at); return; }
    }
    (void)herm; (void)herm_tol;
    vf::count("adjoint.coarse_operator_checked");
}

template <class V> static void run_type(int nmax) {
    typedef backend::builtin<V> Backend;
    for (int n = 3; n <= nmax; ++n) {
        for (uint64_t mask = 0; mask < (1ull << ubits(n)); ++mask) {
            std::string key = vf::KS() << "adj|" << Make<V>::name() << "|" << n << "|" << mask;
            if (!vf::take([&]{ return key; })) continue;
            if (!connected(n, mask)) continue;
            for (int rule = 0; rule < 2; ++rule) {
                auto A = make<V>(n, mask, rule);
                for (float eps : {0.08f, 0.5f}) {
                    std::string at = vf::KS() << "rule=" << rule << " eps_strong=" << eps << " n=" << n << " graph mask " << mask;
                    vf::nontrivial(vf::hstr(vf::KS() << key << "|" << rule << "|" << eps));
                    { typename coarsening::aggregation<Backend>::params p; p.aggr.eps_strong = eps; coarsening::aggregation<Backend> c(p); float s = 1 / p.over_interp; one<V>(key, *A, c, "aggregation", s, at); }
                    { typename coarsening::smoothed_aggregation<Backend>::params p; p.aggr.eps_strong = eps; coarsening::smoothed_aggregation<Backend> c(p); one<V>(key, *A, c, "smoothed_aggregation", 1.0f, at); }
                    { typename coarsening::smoothed_aggregation<Backend>::params p; p.aggr.eps_strong = eps; p.estimate_spectral_radius = true; p.relax = 0.75f; coarsening::smoothed_aggregation<Backend> c(p); one<V>(key, *A, c, "smoothed_aggregation", 1.0f, at + " estimate_spectral_radius relax=0.75"); }
                }
            }
        }
        vf::space(vf::KS() << "R = P^H and A_coarse = R A P on " << Make<V>::name() << " values: all connected labelled graphs on " << n << " nodes x 2 value rules x eps_strong {0.08,0.5} x {aggregation, smoothed_aggregation (2 parameter sets)}");
    }
}

int main(int argc, char **argv) {
    vf::init(argc, argv, "C03");
    vf::sample_str("adjoint case: path 0-1-2, Hermitian complex matrix with edge phases (0.6+0.8i), i: smoothed_aggregation: R(q,i) must be conj(P(i,q)) and A_coarse = R A P Hermitian");
    if (vf::section("adj")) { int nmax = vf::thorough() ? 6 : 5; run_type<cplx>(nmax); run_type<Blk>(nmax); }
    return vf::finish();
}
