// C18 unit "cpr": the two-stage CPR preconditioner against its dense formula
//     x = S f + Scatter P ( Fpp ( f - A S f ) ),   App = Fpp A Scatter,
//     Fpp(ip, ip*B .. ip*B+B-1) = first row of (diagonal block ip)^-1.
// Inner preconditioners are harness classes (recording, fixed exactly representable linear
// maps).  All data are small integers / dyadic rationals chosen so that every intermediate
// value of the real code is exactly representable in double: the oracle is ==, evaluated
// independently over the rationals.
#include <algorithm>
#include "C18_common.hpp"
#include <amgcl/value_type/static_matrix.hpp>
#include <amgcl/adapter/crs_tuple.hpp>
#include <amgcl/preconditioner/cpr.hpp>
#include <amgcl/preconditioner/cpr_drs.hpp>
#include "forkrun.hpp"

using namespace c18;

template <class V> struct first_scalar { static double get(const V &v) { return v; } };
template <class T, int N, int M> struct first_scalar<amgcl::static_matrix<T, N, M>> { static double get(const amgcl::static_matrix<T, N, M> &v) { return v(0, 0); } };

// coefficients of the harness preconditioner derived from the matrix it was given
struct Coef { std::vector<double> c, w; };
template <class M> Coef coef_of(const M &A) {
    typedef typename amgcl::backend::value_type<M>::type V;
    int n = (int)amgcl::backend::rows(A); Coef k; k.c.resize(n); k.w.resize(n);
    static const double cc[3] = {1.0, 0.5, 0.25};
    for (int i = 0; i < n; ++i) {
        int nnz = 0; double first = 1;
        for (auto a = amgcl::backend::row_begin(A, i); a; ++a) { if (!nnz) first = first_scalar<V>::get(a.value()); ++nnz; }
        k.c[i] = cc[nnz % 3]; k.w[i] = first > 0 ? 0.5 : -0.5;
    }
    return k;
}

template <class Backend, int Role>
class LinearPrecond {
    public:
        typedef Backend backend_type;
        typedef typename Backend::value_type value_type;
        typedef typename Backend::matrix matrix;
        typedef typename Backend::vector vector;
        typedef typename Backend::params backend_params;
        typedef typename amgcl::backend::builtin<value_type>::matrix build_matrix;
        typedef AnyParams params;
        std::shared_ptr<build_matrix> A; Coef k; int n;
        static long &constructed() { static long c = 0; return c; }
        LinearPrecond(std::shared_ptr<build_matrix> M, const params& = params(), const backend_params& = backend_params()) : A(M), k(coef_of(*M)), n((int)amgcl::backend::rows(*M)) { ++constructed(); }
        template <class Vec1, class Vec2> void apply(const Vec1 &rhs, Vec2 &&x) const {
            for (int i = 0; i < n; ++i) x[i] = k.c[i] * rhs[i] + k.w[i] * rhs[(i + 1) % n];
        }
        const matrix& system_matrix() const { return *A; }
        std::shared_ptr<matrix> system_matrix_ptr() const { return A; }
        size_t bytes() const { return 0; }
        friend std::ostream& operator<<(std::ostream &os, const LinearPrecond&) { return os << "harness preconditioner"; }
};

// dense (scalar) matrix of the harness preconditioner acting on vectors of nb elements with B scalars each
static Mat<Q> precond_dense(const Coef &k, int B) {
    int nb = (int)k.c.size(); Mat<Q> W(nb * B, nb * B);
    for (int i = 0; i < nb; ++i) for (int b = 0; b < B; ++b) { W(i * B + b, i * B + b) += Q(k.c[i]); W(i * B + b, ((i + 1) % nb) * B + b) += Q(k.w[i]); }
    return W;
}

// ------------------------------------------------------------------------------------------
// generator: nb cells, B unknowns per cell; block (I,J) present according to `graph` (diagonal always);
// fill variant decides which entries of a present block are stored.
static int offv(int i, int j) { static const int v[7] = {1, -1, 2, -2, 3, -3, 1}; return v[(3 * i + 5 * j) % 7]; }
static mk::Dense<double> cpr_matrix(int nb, int B, uint64_t graph, int fill) {
    int n = nb * B; mk::Dense<double> K(n, n);
    int gb = 0;
    for (int I = 0; I < nb; ++I) for (int J = 0; J < nb; ++J) {
        bool present = (I == J); if (I != J) { present = mk::bit(graph, gb); ++gb; }
        if (!present) continue;
        if (I == J) {
            // D = L U, L unit lower with small integers, U upper with +-1, +-2 on the diagonal: elimination without pivoting is exact
            Mat<Q> L(B, B), U(B, B);
            for (int a = 0; a < B; ++a) { L(a, a) = 1; for (int b = 0; b < a; ++b) L(a, b) = ((a + b + I) % 3) - 1; }
            for (int a = 0; a < B; ++a) { U(a, a) = ((a + I) % 2 ? 2 : 1) * ((a + 2 * I) % 3 == 0 ? -1 : 1); for (int b = a + 1; b < B; ++b) U(a, b) = ((2 * a + b + I) % 3) - 1; }
            Mat<Q> D = mul(L, U);
            for (int a = 0; a < B; ++a) for (int b = 0; b < B; ++b) {
                double v = D(a, b).convert_to<double>();
                bool store = (v != 0) || fill == 0;           // fill 0: every entry of a present block is stored (explicit zeros)
                if (store) { K.st(I * B + a, I * B + b) = 1; K(I * B + a, I * B + b) = v; }
            }
        } else {
            for (int a = 0; a < B; ++a) for (int b = 0; b < B; ++b) {
                bool store = true;
                switch (fill) { case 0: case 1: store = true; break; case 2: store = (b == 0) || (a == b); break; case 3: store = (b != 0); break; case 4: store = (a == B - 1); break; }
                if (store) { K.st(I * B + a, J * B + b) = 1; K(I * B + a, J * B + b) = offv(I * B + a, J * B + b); }
            }
        }
    }
    return K;
}

struct Ref { Mat<Q> Fpp, Scatter, App; std::vector<char> app_st; int np, N; };
// dense definition of the CPR transfer operators for an n x n scalar matrix, block size B, N active scalar rows
static Ref cpr_reference(const mk::Dense<double> &K, int B, int N) {
    int n = K.m; Ref r; r.N = N; r.np = N / B;
    r.Fpp = Mat<Q>(r.np, n); r.Scatter = Mat<Q>(n, r.np); r.App = Mat<Q>(r.np, r.np); r.app_st.assign((size_t)r.np * r.np, 0);
    Mat<Q> Kd(n, n); for (int i = 0; i < n; ++i) for (int j = 0; j < n; ++j) if (K.st(i, j)) Kd(i, j) = Q(K(i, j));
    for (int ip = 0; ip < r.np; ++ip) {
        Mat<Q> D(B, B), Di; for (int a = 0; a < B; ++a) for (int b = 0; b < B; ++b) D(a, b) = Kd(ip * B + a, ip * B + b);
        if (!inverse(D, Di)) throw Singular("diagonal block singular");
        for (int b = 0; b < B; ++b) r.Fpp(ip, ip * B + b) = Di(0, b);
        r.Scatter(ip * B, ip) = 1;
    }
    r.App = mul(r.Fpp, mul(Kd, r.Scatter));
    for (int ip = 0; ip < r.np; ++ip) for (int jc = 0; jc < r.np; ++jc) for (int a = 0; a < B; ++a) for (int b = 0; b < B; ++b) if (K.st(ip * B + a, jc * B + b)) r.app_st[(size_t)ip * r.np + jc] = 1;
    return r;
}
static std::vector<Q> cpr_apply_ref(const Mat<Q> &Kd, const Ref &r, const Mat<Q> &Ws, const Mat<Q> &Wp, const std::vector<Q> &f) {
    std::vector<Q> x = mulv(Ws, f), Ax = mulv(Kd, x), res(f.size());
    for (size_t i = 0; i < f.size(); ++i) res[i] = f[i] - Ax[i];
    std::vector<Q> rp = mulv(r.Fpp, res), xp = mulv(Wp, rp), sx = mulv(r.Scatter, xp);
    for (size_t i = 0; i < x.size(); ++i) x[i] += sx[i];
    return x;
}
static Mat<Q> qdense(const mk::Dense<double> &K) { Mat<Q> M(K.m, K.n); for (int i = 0; i < K.m; ++i) for (int j = 0; j < K.n; ++j) if (K.st(i, j)) M(i, j) = Q(K(i, j)); return M; }
static std::vector<double> rhs_vec(int n, int t) {
    std::vector<double> f(n, 0.0);
    if (t < n) f[t] = 1; else for (int i = 0; i < n; ++i) f[i] = ((i % 2) ? -1 : 1) * (1 + i % 5);
    return f;
}

typedef amgcl::backend::builtin<double> SB;
typedef LinearPrecond<SB, 0> PPre;     // pressure preconditioner (always scalar)
typedef LinearPrecond<SB, 1> SPreS;    // global preconditioner, scalar matrix
typedef amgcl::preconditioner::cpr<PPre, SPreS> CprS;

template <int B> struct BlockTypes {
    typedef amgcl::static_matrix<double, B, B> BV;
    typedef amgcl::static_matrix<double, B, 1> BR;
    typedef amgcl::backend::builtin<BV> BB;
    typedef LinearPrecond<BB, 2> SPreB;
    typedef amgcl::preconditioner::cpr<PPre, SPreB> CprB;
    static std::shared_ptr<amgcl::backend::crs<BV>> to_block(const mk::Dense<double> &K) {
        int nb = K.m / B; mk::Dense<BV> D(nb, nb);
        for (int I = 0; I < nb; ++I) for (int J = 0; J < nb; ++J) {
            bool any = false; BV v = amgcl::math::zero<BV>();
            for (int a = 0; a < B; ++a) for (int b = 0; b < B; ++b) if (K.st(I * B + a, J * B + b)) { any = true; v(a, b) = K(I * B + a, J * B + b); }
            if (any) { D.st(I, J) = 1; D(I, J) = v; }
        }
        return mk::to_crs<BV>(D);
    }
};

template <class M> static std::string compare_dense(const M &A, const Mat<Q> &want, const std::vector<char> *want_st, const char *what) {
    mk::Dense<double> g; std::string err = mk::from_crs(A, g, false);
    if (!err.empty()) return std::string(what) + ": " + err;
    if (g.m != want.m || g.n != want.n) return std::string(what) + ": shape";
    for (int i = 0; i < g.m; ++i) for (int j = 0; j < g.n; ++j) {
        Q v = g.st(i, j) ? Q(g(i, j)) : Q(0);
        if (!(v == want(i, j))) return vf::KS() << what << "(" << i << "," << j << ") = " << v << " expected " << want(i, j);
        if (want_st && (bool)g.st(i, j) != (bool)(*want_st)[(size_t)i * g.n + j]) return vf::KS() << what << "(" << i << "," << j << ") stored=" << (int)g.st(i, j) << " expected stored=" << (int)(*want_st)[(size_t)i * g.n + j];
    }
    return "";
}

// one case: scalar CPR with block_size B, and the block valued CPR on the same matrix
// the same matrix with the entries of every row stored in descending column order (a legal CRS matrix)
template <class M> static std::shared_ptr<M> reversed_rows(const M &A) {
    auto R = std::make_shared<M>(A);
    for (size_t i = 0; i < R->nrows; ++i) { std::reverse(R->col + R->ptr[i], R->col + R->ptr[i + 1]); std::reverse(R->val + R->ptr[i], R->val + R->ptr[i + 1]); }
    return R;
}

template <int B>
static void cpr_case(int nb, uint64_t graph, int fill, int active_cells, const std::string &key) {
    typedef BlockTypes<B> BT;
    const int n = nb * B;
    mk::Dense<double> K = cpr_matrix(nb, B, graph, fill);
    mk::Dense<double> K2 = K;                     // a second matrix with the same pattern: different diagonal blocks and couplings
    for (int i = 0; i < n; ++i) for (int j = 0; j < n; ++j) if (K2.st(i, j)) { if (i / B != j / B) K2(i, j) = -2 * K2(i, j); else K2(i, j) = ((i / B) % 2 ? 4 : 2) * K2(i, j); }   // diagonal blocks scaled by powers of two: inverses stay dyadic
    const int N = active_cells ? active_cells * B : n;
    std::string ctx = vf::KS() << "K=" << mk::show(K) << " block_size=" << B << " active_rows=" << (active_cells ? N : 0);
    Mat<Q> Kd = qdense(K), Kd2 = qdense(K2);
    Ref R, R2;
    try { R = cpr_reference(K, B, N); R2 = cpr_reference(K2, B, N); } catch (const Singular&) { vf::count("skipped.singular_diagonal_block"); return; }
    auto A = mk::to_crs<double>(K); auto A2 = mk::to_crs<double>(K2);
    typename CprS::params ps; ps.block_size = B; ps.active_rows = active_cells ? N : 0;
    long p0 = PPre::constructed(), s0 = SPreS::constructed();
    CprS C(*A, ps);
    if (PPre::constructed() != p0 + 1 || SPreS::constructed() != s0 + 1) vf::fail("cpr.inner_preconditioners_not_constructed_once", key, ctx);
    // transfer operators and pressure matrix
    std::string e;
    auto crop = [](const Mat<Q> &M, int cols) { Mat<Q> C(M.m, cols); for (int i = 0; i < M.m; ++i) for (int j = 0; j < cols; ++j) C(i, j) = M(i, j); return C; };
    if (!(e = compare_dense(*C.Fpp, crop(R.Fpp, N), nullptr, "Fpp")).empty()) vf::fail("cpr.scalar.Fpp", key, ctx + " : " + e);
    if (!(e = compare_dense(*C.Scatter, R.Scatter, nullptr, "Scatter")).empty()) vf::fail("cpr.scalar.Scatter", key, ctx + " : " + e);
    if (!(e = compare_dense(*C.P->A, R.App, &R.app_st, "App")).empty()) vf::fail("cpr.scalar.App", key, ctx + " : " + e + " got " + [&]{ mk::Dense<double> g; mk::from_crs(*C.P->A, g, false); return mk::show(g); }());
    { mk::Dense<double> g; std::string why; std::string err = mk::from_crs(C.S->system_matrix(), g, true); if (!err.empty() || !mk::same(g, K, why)) vf::fail("cpr.scalar.system_matrix", key, ctx + " : " + err + why); }
    Mat<Q> Ws = precond_dense(C.S->k, 1), Wp = precond_dense(C.P->k, 1);
    // block valued twin
    auto Ab = BT::to_block(K); auto Ab2 = BT::to_block(K2);
    typename BT::CprB::params pb; pb.active_rows = active_cells;
    typename BT::CprB Cb(*Ab, pb);
    if (!(e = compare_dense(*Cb.Fpp, crop(R.Fpp, N), nullptr, "Fpp")).empty()) vf::fail("cpr.block.Fpp", key, ctx + " : " + e);
    {
        const auto &Ap = *Cb.P->A; std::string bad;
        for (size_t i = 0; i < Ap.nrows && bad.empty(); ++i) for (auto j = Ap.ptr[i]; j < Ap.ptr[i + 1]; ++j)
            if (Ap.col[j] < 0 || (size_t)Ap.col[j] >= Ap.ncols) { bad = vf::KS() << "pressure matrix is " << Ap.nrows << "x" << Ap.ncols << " but row " << i << " stores column " << Ap.col[j]; break; }
        if (bad.empty() && Ap.nrows && (size_t)Ap.ptr[Ap.nrows] != Ap.nnz) bad = vf::KS() << "pressure matrix has nnz=" << Ap.nnz << " but ptr[nrows]=" << Ap.ptr[Ap.nrows];
        if (!bad.empty()) vf::fail("cpr.block.App", key, ctx + " (block valued input, active_rows in block rows) : " + bad);
        else if (!(e = compare_dense(Ap, R.App, &R.app_st, "App")).empty()) vf::fail("cpr.block.App", key, ctx + " : " + e);
        else vf::count("cpr_block_App_checked");
    }
    { mk::Dense<double> g; mk::from_crs(*Cb.Scatter, g, false); Mat<Q> want(N, R.np); for (int i = 0; i < R.np; ++i) want(i * B, i) = 1;
      if (!(e = compare_dense(*Cb.Scatter, want, nullptr, "Scatter")).empty()) vf::fail("cpr.block.Scatter", key, ctx + " : " + e); }
    Mat<Q> Wsb = precond_dense(Cb.S->k, B), Wpb = precond_dense(Cb.P->k, 1);   // the action of the harness preconditioners as they were constructed
    for (int t = 0; t <= n; ++t) {
        std::vector<double> f = rhs_vec(n, t);
        std::vector<Q> fq(f.begin(), f.end());
        // scalar
        amgcl::backend::numa_vector<double> rhs(f), x(n);
        for (int i = 0; i < n; ++i) x[i] = 99;
        C.apply(rhs, x);
        std::vector<Q> got(n), want = cpr_apply_ref(Kd, R, Ws, Wp, fq);
        for (int i = 0; i < n; ++i) got[i] = Q(x[i]);
        if (got != want) vf::fail("cpr.scalar.formula", key, ctx + (vf::KS() << " f=" << (t < n ? "e_" + std::to_string(t) : std::string("generic")) << " : got " << showv(got) << " want " << showv(want)).str());
        else vf::count("cpr_scalar_apply_checked");
        // block
        amgcl::backend::numa_vector<typename BT::BR> rb(nb), xb(nb);
        for (int i = 0; i < nb; ++i) for (int b = 0; b < B; ++b) { rb[i](b) = f[i * B + b]; xb[i](b) = 99; }
        Cb.apply(rb, xb);
        std::vector<Q> gotb(n), wantb = cpr_apply_ref(Kd, R, Wsb, Wpb, fq);
        for (int i = 0; i < nb; ++i) for (int b = 0; b < B; ++b) gotb[i * B + b] = Q(xb[i](b));
        if (gotb != wantb) vf::fail("cpr.block.formula", key, ctx + (vf::KS() << " f=" << (t < n ? "e_" + std::to_string(t) : std::string("generic")) << " : got " << showv(gotb) << " want " << showv(wantb)).str());
        else vf::count("cpr_block_apply_checked");
    }
    // scalar-with-block_size and block valued input build the same operators
    { mk::Dense<double> a, b; mk::from_crs(*C.P->A, a, false); std::string why;
      if (!mk::from_crs(*Cb.P->A, b, false).empty()) vf::count("scalar_vs_block_not_compared_block_App_malformed");
      else if (!mk::same(a, b, why)) vf::fail("cpr.scalar_vs_block.App", key, ctx + " : " + why); else vf::count("scalar_vs_block_App_identical");
      mk::from_crs(*C.Fpp, a, false); mk::from_crs(*Cb.Fpp, b, false);
      bool same_vals = a.m == b.m; if (same_vals) for (int i = 0; i < a.m; ++i) for (int j = 0; j < std::min(a.n, b.n); ++j) if ((a.st(i, j) ? a(i, j) : 0.0) != (b.st(i, j) ? b(i, j) : 0.0)) same_vals = false;
      if (!same_vals) vf::fail("cpr.scalar_vs_block.Fpp", key, ctx); }
    // partial update with the unchanged matrix: action unchanged (bitwise), pressure preconditioner not rebuilt
    for (int upd = 0; upd < 2; ++upd) {
        long p1 = PPre::constructed(), s1 = SPreS::constructed();
        CprS C2(*A, ps);
        std::vector<std::vector<double>> before;
        for (int t = 0; t <= n; ++t) { std::vector<double> f = rhs_vec(n, t); amgcl::backend::numa_vector<double> rhs(f), x(n); C2.apply(rhs, x); before.push_back(std::vector<double>(&x[0], &x[0] + n)); }
        C2.partial_update(*A, (bool)upd);
        for (int t = 0; t <= n; ++t) { std::vector<double> f = rhs_vec(n, t); amgcl::backend::numa_vector<double> rhs(f), x(n); C2.apply(rhs, x);
            if (std::memcmp(&x[0], before[t].data(), n * sizeof(double))) vf::fail("cpr.partial_update.same_matrix", key, ctx + (vf::KS() << " update_transfer_ops=" << upd << " rhs #" << t << ": action changed").str()); else vf::count("partial_update_same_matrix_checked"); }
        // partial update with another matrix: global stage and (optionally) Fpp follow the new matrix, pressure stage keeps the old App
        C2.partial_update(*A2, (bool)upd);
        if (PPre::constructed() != p1 + 1) vf::fail("cpr.partial_update.pressure_preconditioner_rebuilt", key, ctx);
        if (SPreS::constructed() != s1 + 3) vf::fail("cpr.partial_update.global_preconditioner_not_rebuilt", key, ctx);
        Ref Rm = R; if (upd) Rm.Fpp = R2.Fpp;
        Mat<Q> Ws2 = precond_dense(C2.S->k, 1);
        if (!(e = compare_dense(*C2.Fpp, crop(Rm.Fpp, N), nullptr, "Fpp")).empty()) vf::fail("cpr.partial_update.Fpp", key, ctx + (vf::KS() << " update_transfer_ops=" << upd << " : " << e).str());
        for (int t = 0; t <= n; t += (t < n - 1 ? n - 1 : 1)) {
            std::vector<double> f = rhs_vec(n, t); std::vector<Q> fq(f.begin(), f.end());
            amgcl::backend::numa_vector<double> rhs(f), x(n); C2.apply(rhs, x);
            std::vector<Q> got(n), want = cpr_apply_ref(Kd2, Rm, Ws2, Wp, fq);
            for (int i = 0; i < n; ++i) got[i] = Q(x[i]);
            if (got != want) vf::fail("cpr.partial_update.formula", key, ctx + (vf::KS() << " update_transfer_ops=" << upd << " new K=" << mk::show(K2) << " rhs #" << t << " : got " << showv(got) << " want " << showv(want)).str());
            else vf::count("partial_update_new_matrix_checked");
        }
    }
    // block valued partial update with the same matrix
    {
        typename BT::CprB Cb2(*Ab, pb);
        for (int upd = 0; upd < 2; ++upd) {
            std::vector<double> f = rhs_vec(n, n);
            amgcl::backend::numa_vector<typename BT::BR> rb(nb), x1(nb), x2(nb);
            for (int i = 0; i < nb; ++i) for (int b = 0; b < B; ++b) rb[i](b) = f[i * B + b];
            Cb2.apply(rb, x1); Cb2.partial_update(*Ab, (bool)upd); Cb2.apply(rb, x2);
            if (std::memcmp(&x1[0], &x2[0], nb * sizeof(typename BT::BR))) vf::fail("cpr.block.partial_update.same_matrix", key, ctx); else vf::count("block_partial_update_same_matrix_checked");
        }
    }
    // partial update with the unchanged matrix handed over with unsorted rows (row order is not part of the matrix)
    {
        auto Arev = reversed_rows(*A);
        for (int upd = 0; upd < 2; ++upd) {
            CprS C3(*A, ps);
            std::vector<std::vector<double>> before;
            for (int t = 0; t <= n; ++t) { amgcl::backend::numa_vector<double> rhs(rhs_vec(n, t)), x(n); C3.apply(rhs, x); before.push_back(std::vector<double>(&x[0], &x[0] + n)); }
            C3.partial_update(*Arev, (bool)upd);
            bool same_action = true;
            for (int t = 0; t <= n; ++t) { amgcl::backend::numa_vector<double> rhs(rhs_vec(n, t)), x(n); C3.apply(rhs, x); if (std::memcmp(&x[0], before[t].data(), n * sizeof(double))) same_action = false; }
            if (!same_action) vf::fail("cpr.partial_update.same_matrix_unsorted_rows", key, ctx + (vf::KS() << " update_transfer_ops=" << upd << " : action changed after a partial update with the same matrix stored with descending columns").str());
            else vf::count("partial_update_unsorted_rows_checked");
        }
    }
    vf::nontrivial(vf::hstr(key));
}


// cpr_drs (dynamic row sum weighting): the weights themselves are not part of the property; checked are
// the generic two-stage structure with the object's own Fpp (entries 0/1): App == Fpp A Scatter, a
// well-formed pressure matrix, the apply formula, and scalar-vs-block identity of Fpp and App.
template <class M> static Mat<Q> qd(const M &A, int cols) {
    Mat<Q> D((int)A.nrows, cols);
    for (size_t i = 0; i < A.nrows; ++i) for (auto j = A.ptr[i]; j < A.ptr[i + 1]; ++j) if (A.col[j] >= 0 && A.col[j] < cols) D((int)i, (int)A.col[j]) += Q(A.val[j]);
    return D;
}
template <class M> static std::string malformed(const M &Ap) {
    for (size_t i = 0; i < Ap.nrows; ++i) for (auto j = Ap.ptr[i]; j < Ap.ptr[i + 1]; ++j)
        if (Ap.col[j] < 0 || (size_t)Ap.col[j] >= Ap.ncols) return vf::KS() << "pressure matrix is " << Ap.nrows << "x" << Ap.ncols << " but row " << i << " stores column " << Ap.col[j];
    if (Ap.nrows && (size_t)Ap.ptr[Ap.nrows] != Ap.nnz) return vf::KS() << "pressure matrix has nnz=" << Ap.nnz << " but ptr[nrows]=" << Ap.ptr[Ap.nrows];
    return "";
}
template <int B>
static void drs_case(int nb, uint64_t graph, int fill, int active_cells, const std::string &key) {
    typedef BlockTypes<B> BT;
    typedef amgcl::preconditioner::cpr_drs<PPre, SPreS> DrsS;
    typedef amgcl::preconditioner::cpr_drs<PPre, typename BT::SPreB> DrsB;
    const int n = nb * B, N = active_cells ? active_cells * B : n, np = N / B;
    mk::Dense<double> K = cpr_matrix(nb, B, graph, fill);
    Mat<Q> Kd = qdense(K);
    std::string ctx = vf::KS() << "cpr_drs K=" << mk::show(K) << " block_size=" << B << " active_rows=" << (active_cells ? N : 0);
    auto A = mk::to_crs<double>(K); auto Ab = BT::to_block(K);
    typename DrsS::params ps; ps.block_size = B; ps.active_rows = active_cells ? N : 0;
    typename DrsB::params pb; pb.active_rows = active_cells;
    DrsS C(*A, ps); DrsB Cb(*Ab, pb);
    Mat<Q> Sc(n, np); for (int i = 0; i < np; ++i) Sc(i * B, i) = 1;
    auto one = [&](const char *tag, const Mat<Q> &F, const Mat<Q> &ScG, const amgcl::backend::crs<double> &App, const Coef &ks, int sb, const Coef &kp, auto applyfn) {
        if (!same(ScG, Sc)) vf::fail(std::string("cpr_drs.") + tag + ".Scatter", key, ctx);
        std::string bad = malformed(App);
        if (!bad.empty()) { vf::fail(std::string("cpr_drs.") + tag + ".App", key, ctx + " : " + bad); }
        else { Mat<Q> want = mul(F, mul(Kd, Sc)); if (!same(qd(App, np), want)) vf::fail(std::string("cpr_drs.") + tag + ".App", key, ctx + " : App " + show(qd(App, np)) + " != Fpp A Scatter " + show(want)); else vf::count(std::string("cpr_drs_App_checked.") + tag); }
        Ref R; R.Fpp = F; R.Scatter = Sc; R.np = np; R.N = N;
        Mat<Q> Ws = precond_dense(ks, sb), Wp = precond_dense(kp, 1);
        for (int t = 0; t <= n; t += (t < n - 1 && n > 6 ? 3 : 1)) {
            std::vector<double> f = rhs_vec(n, t); std::vector<Q> fq(f.begin(), f.end());
            std::vector<Q> got = applyfn(f), want = cpr_apply_ref(Kd, R, Ws, Wp, fq);
            if (got != want) vf::fail(std::string("cpr_drs.") + tag + ".formula", key, ctx + " : got " + showv(got) + " want " + showv(want)); else vf::count(std::string("cpr_drs_apply_checked.") + tag);
        }
    };
    Mat<Q> Fs = qd(*C.Fpp, n), Fb = qd(*Cb.Fpp, n);
    one("scalar", Fs, qd(*C.Scatter, np), *C.P->A, C.S->k, 1, C.P->k, [&](const std::vector<double> &f) {
        amgcl::backend::numa_vector<double> rhs(f), x(n); C.apply(rhs, x); std::vector<Q> g(n); for (int i = 0; i < n; ++i) g[i] = Q(x[i]); return g; });
    {
        Mat<Q> ScB(n, np); { auto t = qd(*Cb.Scatter, np); for (int i = 0; i < t.m; ++i) for (int j = 0; j < np; ++j) ScB(i, j) = t(i, j); }
        one("block", Fb, ScB, *Cb.P->A, Cb.S->k, B, Cb.P->k, [&](const std::vector<double> &f) {
            amgcl::backend::numa_vector<typename BT::BR> rb(nb), xb(nb);
            for (int i = 0; i < nb; ++i) for (int b = 0; b < B; ++b) rb[i](b) = f[i * B + b];
            Cb.apply(rb, xb); std::vector<Q> g(n); for (int i = 0; i < nb; ++i) for (int b = 0; b < B; ++b) g[i * B + b] = Q(xb[i](b)); return g; });
    }
    if (!same(Fs, Fb)) vf::fail("cpr_drs.scalar_vs_block.Fpp", key, ctx + " : scalar " + show(Fs) + " block " + show(Fb)); else vf::count("cpr_drs_scalar_vs_block_Fpp_identical");
    // partial update of cpr_drs with the unchanged matrix (both settings of update_transfer_ops, scalar and block valued
    // input): the action is unchanged bit for bit and a recomputed Fpp equals the constructed one.  The call is probed
    // in a forked child first, so that a crash inside partial_update is an outcome of this case, not the end of the shard.
    for (int upd = 0; upd < 2; ++upd) {
        fr::Result pr = fr::run([&](fr::Out &out) { DrsS C2(*A, ps); C2.partial_update(*A, (bool)upd); amgcl::backend::numa_vector<double> rhs(rhs_vec(n, n)), x(n); C2.apply(rhs, x); out << "ok"; }, 60.0);
        if (pr.kind != fr::OK) { vf::fail("cpr_drs.scalar.partial_update.crash", key, ctx + (vf::KS() << " update_transfer_ops=" << upd << " : partial_update(K) of a cpr_drs built from scalar input ended with " << (pr.kind == fr::SIGNAL ? "signal " : (pr.kind == fr::EXC ? "exception " : "outcome ")) << (pr.kind == fr::EXC ? pr.text : std::to_string(pr.code))).str()); continue; }
        DrsS C2(*A, ps);
        std::vector<std::vector<double>> before;
        for (int t = 0; t <= n; ++t) { amgcl::backend::numa_vector<double> rhs(rhs_vec(n, t)), x(n); C2.apply(rhs, x); before.push_back(std::vector<double>(&x[0], &x[0] + n)); }
        C2.partial_update(*A, (bool)upd);
        if (!same(qd(*C2.Fpp, n), Fs)) vf::fail("cpr_drs.scalar.partial_update.Fpp", key, ctx + (vf::KS() << " update_transfer_ops=" << upd << " : Fpp after the update " << show(qd(*C2.Fpp, n)) << " constructed " << show(Fs)).str());
        bool same_action = true;
        for (int t = 0; t <= n; ++t) { amgcl::backend::numa_vector<double> rhs(rhs_vec(n, t)), x(n); C2.apply(rhs, x); if (std::memcmp(&x[0], before[t].data(), n * sizeof(double))) same_action = false; }
        if (!same_action) vf::fail("cpr_drs.scalar.partial_update.same_matrix", key, ctx + (vf::KS() << " update_transfer_ops=" << upd << " : action changed").str()); else vf::count("cpr_drs_scalar_partial_update_same_matrix_checked");
        {
            auto Arev = reversed_rows(*A);
            C2.partial_update(*Arev, (bool)upd);
            bool same2 = true;
            for (int t = 0; t <= n; ++t) { amgcl::backend::numa_vector<double> rhs(rhs_vec(n, t)), x(n); C2.apply(rhs, x); if (std::memcmp(&x[0], before[t].data(), n * sizeof(double))) same2 = false; }
            if (!same2) vf::fail("cpr_drs.scalar.partial_update.same_matrix_unsorted_rows", key, ctx + (vf::KS() << " update_transfer_ops=" << upd << " : action changed after a partial update with the same matrix stored with descending columns").str());
            else vf::count("cpr_drs_partial_update_unsorted_rows_checked");
        }
    }
    for (int upd = 0; upd < 2; ++upd) {
        fr::Result pr = fr::run([&](fr::Out &out) { DrsB C2(*Ab, pb); C2.partial_update(*Ab, (bool)upd); out << "ok"; }, 60.0);
        if (pr.kind != fr::OK) { vf::fail("cpr_drs.block.partial_update.crash", key, ctx + (vf::KS() << " update_transfer_ops=" << upd << " : outcome " << (int)pr.kind << " code " << pr.code << " " << pr.text).str()); continue; }
        DrsB C2(*Ab, pb);
        std::vector<double> f = rhs_vec(n, n);
        amgcl::backend::numa_vector<typename BT::BR> rb(nb), x1(nb), x2(nb);
        for (int i = 0; i < nb; ++i) for (int b = 0; b < B; ++b) rb[i](b) = f[i * B + b];
        C2.apply(rb, x1); C2.partial_update(*Ab, (bool)upd); C2.apply(rb, x2);
        if (!same(qd(*C2.Fpp, n), Fb)) vf::fail("cpr_drs.block.partial_update.Fpp", key, ctx + (vf::KS() << " update_transfer_ops=" << upd).str());
        if (std::memcmp(&x1[0], &x2[0], nb * sizeof(typename BT::BR))) vf::fail("cpr_drs.block.partial_update.same_matrix", key, ctx + (vf::KS() << " update_transfer_ops=" << upd << " : action changed").str()); else vf::count("cpr_drs_block_partial_update_same_matrix_checked");
    }
    vf::nontrivial(vf::hstr(key));
}

template <int B> static void run_cpr() {
    std::vector<int> nbs = vf::thorough() || vf::replaying() ? std::vector<int>{1, 2, 3, 4} : std::vector<int>{1, 2, 3};
    for (int nb : nbs) {
        int gbits = nb * (nb - 1);
        for (uint64_t g = 0; g < (1ull << gbits); ++g) for (int fill = 0; fill < 5; ++fill) for (int act : {0, nb - 1}) {
            if (act == 0 && nb - 1 == 0 && false) continue;
            if (act != 0 && act >= nb) continue;
            if (nb == 1 && act != 0) continue;
            std::string key = vf::KS() << "cp|" << B << "|" << nb << "|" << g << "|" << fill << "|" << act;
            if (vf::take([&]{ return key; })) cpr_case<B>(nb, g, fill, act, key);
            std::string dkey = vf::KS() << "cd|" << B << "|" << nb << "|" << g << "|" << fill << "|" << act;
            if (vf::take([&]{ return dkey; })) drs_case<B>(nb, g, fill, act, dkey);
        }
        vf::space(vf::KS() << "cpr: block size " << B << ", all " << (1ull << gbits) << " block graphs on " << nb << " cells x 5 block fill variants x active_rows {0, " << (nb - 1) * B << "}, scalar input with block_size and block valued input, unit vectors + one generic rhs");
    }
}

int main(int argc, char **argv) {
    vf::init(argc, argv, "C18");
    vf::sample_str("cpr case: " + mk::show(cpr_matrix(2, 2, 3, 2)) + " block_size=2; S and P are harness preconditioners x_i = c_i f_i + w_i f_{i+1} with dyadic c_i, w_i derived from the matrix they were given");
    if (vf::section("cp") || vf::section("cd")) { run_cpr<2>(); run_cpr<3>(); run_cpr<4>(); }
    return vf::finish();
}
