// C01 -- a reported convergence is truthful: residual, iteration count, solution.
//
// Everything goes through
//     amgcl::make_solver< amgcl::runtime::preconditioner<Backend>, amgcl::runtime::solver::wrapper<Backend> >
// configured by a boost::property_tree.  A case = (system, preconditioner config, solver config); inside a case
// every (rhs, x0, maxiter) combination of the tier is solved.  Sub-checks (name carries the solver type):
//   truthful.<solver>        |reported - true| <= bound, true = ||f - A x||/||f|| recomputed in long double from the
//                            user's arrays (left preconditioning: the same preconditioner object applied to that residual)
//   truthful.tol.<solver>    reported < tol  =>  true <= tol (1+1e-6) + bound
//   iters.<solver>           iters <= maxiter (+L-1 for bicgstabl)
//   converges.<solver>       SPD M-matrix systems, AMG preconditioner, default solver parameters: tol 1e-8 reached in <= 100 its
//   richardson.rate          ||r_k||/||r_0|| <= sqrt(kappa(A)) rho^k (1+eps), rho = rho(I - B A), B extracted densely from the
//                            same preconditioner object, only where B is symmetric (measured)
//   scaling.<solver>         f, x0 scaled by 2^k: x scales by exactly 2^k, (iters, residual) bitwise unchanged
//   truthful.tiny_rhs.<solver>  f scaled by 2^-60 (tiny but non-zero): the same truthfulness claim
// Bound (DESIGN C01/FA, derived, kappa measured by dense SVD):
//   bound = 32 u (iters+2) sqrt(n) kappa2(A) (1 + ||A||2 max(||x0||,||x||)/||f||) + 1e-12 reported
//   left preconditioning: times kappa2(B) max(1,||B||2), B extracted densely.  Systems with kappa(A) > 1e4 only get iters.*.
// BiCGStab / BiCGStab(L) / IDR(s) precondition() breakdown exceptions are an allowed outcome and are counted.
#include <complex>
#include <tuple>
#include <sstream>
#include <boost/property_tree/ptree.hpp>
#include <amgcl/backend/builtin.hpp>
#if defined(C01_COMPLEX)
#  include <amgcl/value_type/complex.hpp>
#elif defined(C01_BLOCK)
#  include <amgcl/value_type/static_matrix.hpp>
#  include <amgcl/adapter/block_matrix.hpp>
#endif
#include <amgcl/adapter/crs_tuple.hpp>
#include <amgcl/make_solver.hpp>
#include <amgcl/preconditioner/runtime.hpp>
#include <amgcl/solver/runtime.hpp>
#include "vf.hpp"
#include "forkrun.hpp"
#include "C01_common.hpp"

typedef long double ld;
typedef boost::property_tree::ptree ptree;
static const double U = 1.1102230246251565e-16;

#if defined(C01_COMPLEX)
typedef std::complex<double> SC;            // scalar type of the user's arrays
typedef SC VT;                              // amgcl value type
static const int BS = 1;
static const char *SEC = "c1c";
#elif defined(C01_BLOCK)
typedef double SC;
typedef amgcl::static_matrix<double, 2, 2> VT;
typedef amgcl::static_matrix<double, 2, 1> RT;
static const int BS = 2;
static const char *SEC = "c1b";
#else
typedef double SC;
typedef SC VT;
static const int BS = 1;
static const char *SEC = "c1r";
#endif
typedef amgcl::backend::builtin<VT> Backend;
typedef amgcl::make_solver<amgcl::runtime::preconditioner<Backend>, amgcl::runtime::solver::wrapper<Backend>> Solver;
typedef sg::System<SC> System;

#if defined(C01_BLOCK)
inline amgcl::iterator_range<RT*> vec(std::vector<SC> &v) { RT *p = reinterpret_cast<RT*>(v.data()); return amgcl::make_iterator_range(p, p + v.size() / BS); }
inline amgcl::iterator_range<const RT*> vec(const std::vector<SC> &v) { const RT *p = reinterpret_cast<const RT*>(v.data()); return amgcl::make_iterator_range(p, p + v.size() / BS); }
#else
inline std::vector<SC> &vec(std::vector<SC> &v) { return v; }
inline const std::vector<SC> &vec(const std::vector<SC> &v) { return v; }
#endif

// every violation goes through cfail(): vf::fail plus, when C01_KEYLOG names a file, one appended line "sub<TAB>key"
// (uncapped, written by whichever process observed it) from which the known-finding key lists are generated.
#include <fcntl.h>
#include <unistd.h>
static void cfail(const std::string &sub, const std::string &key, const std::string &detail) {
    vf::fail(sub, key, detail);
    static const char *path = getenv("C01_KEYLOG");
    if (path && !vf::replaying()) {
        int fd = ::open(path, O_WRONLY | O_APPEND | O_CREAT, 0644);
        if (fd >= 0) { std::string line = sub + "\t" + key + "\n"; if (::write(fd, line.data(), line.size()) < 0) {} ::close(fd); }
    }
}

// ---------------------------------------------------------------------------------------------
struct SolverCfg {
    std::string name, type; int side;   // 0 left, 1 right, 2 none
    int L; bool dflt;                   // dflt: default method parameters (used for converges.*)
    ptree p;
};
static std::vector<SolverCfg> solver_cfgs() {
    std::vector<SolverCfg> v;
    auto add = [&](const std::string &name, const char *type, int side, int L, bool dflt, std::initializer_list<std::pair<const char*, std::string>> kv) {
        SolverCfg c; c.name = name; c.type = type; c.side = side; c.L = L; c.dflt = dflt; c.p.put("type", type);
        for (auto &e : kv) c.p.put(e.first, e.second);
        if (side == 0) c.p.put("pside", "left"); if (side == 1) c.p.put("pside", "right");
        v.push_back(c);
    };
    add("cg", "cg", 2, 0, true, {});
    for (int s = 0; s < 2; ++s) {
        const char *sd = s ? "right" : "left";
        add(std::string("bicgstab.") + sd, "bicgstab", s, 0, true, {});
        for (int L : {1, 2, 4}) add(vf::KS() << "bicgstabl" << L << "." << sd, "bicgstabl", s, L, L == 2, {{"L", std::to_string(L)}});
        add(std::string("gmres2.") + sd, "gmres", s, 0, false, {{"M", "2"}});
        add(std::string("gmres30.") + sd, "gmres", s, 0, true, {{"M", "30"}});
        add(std::string("lgmres.") + sd, "lgmres", s, 0, true, {});
    }
    add("fgmres", "fgmres", 2, 0, true, {});
    add("idrs1", "idrs", 2, 0, false, {{"s", "1"}});
    add("idrs4", "idrs", 2, 0, true, {{"s", "4"}});
    add("idrs3.smoothing", "idrs", 2, 0, false, {{"s", "3"}, {"smoothing", "true"}});      // residual smoothing: x_s is returned, ||r_s|| reported
    add("richardson", "richardson", 2, 0, true, {});
    return v;
}

static const char *COARS[4] = {"ruge_stuben", "aggregation", "smoothed_aggregation", "smoothed_aggr_emin"};
static const char *RELAX[9] = {"gauss_seidel", "ilu0", "iluk", "ilup", "ilut", "damped_jacobi", "spai0", "spai1", "chebyshev"};

struct CycleParams { int ncycle = 1, npre = 1, npost = 1, pre_cycles = 1, max_levels = 0 /*0: unlimited*/, coarse_enough = -1 /*-1: max(2,n/8)*/; bool direct_coarse = true; };
struct PrecondCfg {
    std::string name; int cls;              // 0 amg, 1 relaxation, 2 dummy, 3 nested (inner CG with a fixed small iteration count: a NON-linear preconditioner)
    std::string coars, relax; CycleParams cy; int inner_iters = 1;
    ptree build(int nrows) const {
        ptree p;
        if (cls == 3) {
            p.put("class", "nested");
            p.put("precond.class", "amg"); p.put("precond.coarsening.type", "smoothed_aggregation"); p.put("precond.relax.type", "spai0");
            p.put("precond.coarse_enough", std::max(2, nrows / 8));
            p.put("solver.type", "cg"); p.put("solver.maxiter", inner_iters); p.put("solver.tol", 1e-30);
            return p;
        }
        if (cls == 2) { p.put("class", "dummy"); return p; }
        if (cls == 1) { p.put("class", "relaxation"); p.put("type", relax); return p; }
        p.put("class", "amg"); p.put("coarsening.type", coars); p.put("relax.type", relax);
        p.put("coarse_enough", cy.coarse_enough >= 0 ? cy.coarse_enough : std::max(2, nrows / 8));
        p.put("ncycle", cy.ncycle); p.put("npre", cy.npre); p.put("npost", cy.npost); p.put("pre_cycles", cy.pre_cycles);
        if (cy.max_levels > 0) p.put("max_levels", cy.max_levels);
        p.put("direct_coarse", cy.direct_coarse);
        return p;
    }
};
static std::vector<PrecondCfg> base_preconds() {       // 36 amg + 9 relaxation + dummy
    std::vector<PrecondCfg> v;
    for (auto c : COARS) for (auto r : RELAX) { PrecondCfg p; p.cls = 0; p.coars = c; p.relax = r; p.name = std::string("amg:") + c + "+" + r; v.push_back(p); }
    for (auto r : RELAX) { PrecondCfg p; p.cls = 1; p.relax = r; p.name = std::string("relax:") + r; v.push_back(p); }
    { PrecondCfg p; p.cls = 2; p.name = "dummy"; v.push_back(p); }
    return v;
}

// ---------------------------------------------------------------------------------------------
struct SysInfo {
    const System *S; int n;                 // scalar size
    sg::SvdInfo sv;
    Eigen::Matrix<SC, Eigen::Dynamic, Eigen::Dynamic> D;
};

struct Outcome { bool threw = false, unsupported = false, breakdown = false; std::string what; size_t iters = 0; double resid = 0; };

static bool is_breakdown_msg(const std::string &w) { return w.find("breakdown") != std::string::npos || w.find("Zero rho") != std::string::npos || w.find("Zero omega") != std::string::npos; }

struct Built {
    std::unique_ptr<Solver> S; Outcome o; int levels = -1;
};
static Built build(const SysInfo &si, const PrecondCfg &pc, const SolverCfg &sc, int maxiter, double tol = -1) {
    Built b;
    ptree p; p.add_child("precond", pc.build(si.n / BS)); p.add_child("solver", sc.p);
    if (maxiter >= 0) p.put("solver.maxiter", maxiter);
    if (tol >= 0) p.put("solver.tol", tol);
    const auto &A = si.S->A;
    try {
#if defined(C01_BLOCK)
        b.S.reset(new Solver(amgcl::adapter::block_matrix<VT>(std::tie(A.n, A.ptr, A.col, A.val)), p));
#else
        b.S.reset(new Solver(std::tie(A.n, A.ptr, A.col, A.val), p));
#endif
    } catch (const std::exception &e) {
        b.o.threw = true; b.o.what = e.what();
        b.o.unsupported = b.o.what.find("not supported") != std::string::npos;
    }
    return b;
}
static int count_levels(const Solver &S) {
    std::ostringstream os; os << S.precond(); std::string s = os.str();
    size_t k = s.find("Number of levels:"); if (k == std::string::npos) return 1;
    return std::atoi(s.c_str() + k + 17);
}
static Outcome solve(const Solver &S, const std::vector<SC> &f, std::vector<SC> &x) {
    Outcome o;
    try { auto &&F = vec(f); auto &&X = vec(x); std::tie(o.iters, o.resid) = S(F, X); }
    catch (const std::exception &e) { o.threw = true; o.what = e.what(); o.breakdown = is_breakdown_msg(o.what); }
    return o;
}

// dense B: column j = precond applied to e_j
static bool extract_B(const Solver &S, int n, Eigen::Matrix<SC, Eigen::Dynamic, Eigen::Dynamic> &B) {
    B.resize(n, n);
    std::vector<SC> e(n, SC()), z(n, SC());
    try {
        for (int j = 0; j < n; ++j) {
            e[j] = SC(1); std::fill(z.begin(), z.end(), SC());
            auto &&E = vec(e); auto &&Z = vec(z);
            S.precond().apply(E, Z);
            for (int i = 0; i < n; ++i) B(i, j) = z[i];
            e[j] = SC();
        }
    } catch (...) { return false; }
    return B.allFinite();
}

// Plain BiCG in long double on Op y = c (Op = B A, c = B r0 for left; Op = A B, c = r0 for right; shadow residual = c):
// returns the number of steps to convergence, -1 if the Lanczos process breaks down (rho or sigma vanish, or the shadow
// sequence ends first) or does not converge within n steps; g = product of the reciprocal cosines of rho_j and sigma_j.
typedef typename sg::ld_of<SC>::type LSC;
typedef Eigen::Matrix<LSC, Eigen::Dynamic, Eigen::Dynamic> LMat;
typedef Eigen::Matrix<LSC, Eigen::Dynamic, 1> LVec;
static int bicg_reference(const Eigen::Matrix<SC, Eigen::Dynamic, Eigen::Dynamic> &A, const Eigen::Matrix<SC, Eigen::Dynamic, Eigen::Dynamic> &B,
                          const std::vector<SC> &f, const std::vector<SC> &x0, int side, ld &g, ld *mincos = nullptr) {
    int n = (int)A.rows();
    LMat Al = A.template cast<LSC>(), Bl = B.template cast<LSC>();
    LVec fl(n), xl(n); for (int i = 0; i < n; ++i) { fl(i) = (LSC)f[i]; xl(i) = (LSC)x0[i]; }
    LVec r0 = fl - Al * xl;
    LMat Op = side == 0 ? LMat(Bl * Al) : LMat(Al * Bl);
    LVec c = side == 0 ? LVec(Bl * r0) : r0;
    LMat OpH = Op.adjoint();
    LVec r = c, rt = c, p = c, pt = c; g = 1; ld c0 = r.norm(); ld mc = 1;
    auto rc = [&](ld na, ld nb, ld q) { ld cs = (na > 0 && nb > 0) ? q / (na * nb) : 0; mc = std::min(mc, cs); return q > 0 ? std::max((ld)1, na * nb / q) : (ld)INFINITY; };
    struct Fin { ld *out; ld &mc; ~Fin() { if (out) *out = mc; } } fin{mincos, mc};
    for (int k = 0; k <= n; ++k) {
        if (r.norm() <= 1e-10L * c0) return k;
        if (k == n) break;
        if (rt.norm() <= 1e-10L * c0) { mc = 0; return -1; }
        LSC rho = rt.dot(r);                         // Eigen: conjugate-linear in the first argument = rt^H r
        g *= rc(rt.norm(), r.norm(), std::abs(rho));
        LVec q = Op * p; LSC sigma = pt.dot(q);
        g *= rc(pt.norm(), q.norm(), std::abs(sigma));
        if (!(g < 1e30L)) return -1;
        LSC alpha = rho / sigma;
        r -= alpha * q; rt -= sg::conjv_ld(alpha) * (OpH * pt);
        LSC beta = rt.dot(r) / rho;
        p = r + beta * p; pt = rt + sg::conjv_ld(beta) * pt;
    }
    return -2;                                       // no breakdown, but not converged within n steps
}
// true when the exact-arithmetic (long double) BiCG process on this (A, B, f, x0, side) breaks down, or comes within
// 1e3 u of it: some rho_j / sigma_j has |cos| <= 1e3 u, or the shadow sequence ends before the residual does.
static bool bicg_near_breakdown(const Eigen::Matrix<SC, Eigen::Dynamic, Eigen::Dynamic> &A, const Eigen::Matrix<SC, Eigen::Dynamic, Eigen::Dynamic> &B,
                                const std::vector<SC> &f, const std::vector<SC> &x0, int side) {
    ld g = 1, mc = 1; int kb = bicg_reference(A, B, f, x0, side, g, &mc);
    return kb == -1 || mc <= 1e3L * (ld)U;
}

// Long-double re-run of the BiCGStab(L) recurrence exactly as amgcl/solver/bicgstabl.hpp forms it (convex / L==1 branch,
// tol 1e-8): returns the smallest relative size met for the three quantities the recurrence divides by:
//   |rho1| / (||R[j]|| ||Rt||),   |sigma| / (||U[j+1]|| ||Rt||),   |omega| ||R[L]|| / ||R[0]||   (omega = leading MR coefficient).
// 0 means an exact breakdown.  Used only to NAME a violation (near-breakdown or not), never to excuse one.
static ld bicgstabl_rerun_mincos(const Eigen::Matrix<SC, Eigen::Dynamic, Eigen::Dynamic> &A, const Eigen::Matrix<SC, Eigen::Dynamic, Eigen::Dynamic> &B,
                                 const std::vector<SC> &f, const std::vector<SC> &x0, int side, int L, int maxiter) {
    int n = (int)A.rows(); if (L < 1) L = 1; if (maxiter < 0) maxiter = 100;
    LMat Al = A.template cast<LSC>(), Bl = B.template cast<LSC>();
    LVec fl(n), xl(n); for (int i = 0; i < n; ++i) { fl(i) = (LSC)f[i]; xl(i) = (LSC)x0[i]; }
    LMat Op = side == 0 ? LMat(Bl * Al) : LMat(Al * Bl);
    LVec b0 = fl - Al * xl; if (side == 0) b0 = Bl * b0;
    std::vector<LVec> R(L + 1, LVec::Zero(n)), Uv(L + 1, LVec::Zero(n));
    R[0] = b0; LVec Rt = b0; ld nRt = Rt.norm(); if (!(nRt > 0)) return 1;
    LSC alpha = 0, rho0 = 1, omega = 1; ld zeta = nRt, eps = 1e-8L * fl.norm(), mc = 1;
    auto track = [&](ld q, ld na, ld nb) { ld c = (na > 0 && nb > 0) ? q / (na * nb) : 0; if (!(c >= 0)) c = 0; mc = std::min(mc, c); };
    for (int iter = 0; iter < maxiter && zeta >= eps && mc > 0; iter += L) {
        rho0 = -omega * rho0;
        for (int j = 0; j < L; ++j) {
            LSC rho1 = Rt.dot(R[j]); track(std::abs(rho1), R[j].norm(), nRt); if (!(mc > 0)) return 0;
            LSC beta = alpha * (rho1 / rho0); rho0 = rho1;
            for (int i = 0; i <= j; ++i) Uv[i] = R[i] - beta * Uv[i];
            Uv[j + 1] = Op * Uv[j];
            LSC sigma = Rt.dot(Uv[j + 1]); track(std::abs(sigma), Uv[j + 1].norm(), nRt); if (!(mc > 0)) return 0;
            alpha = rho1 / sigma;
            for (int i = 0; i <= j; ++i) R[i] -= alpha * Uv[i + 1];
            R[j + 1] = Op * R[j];
            zeta = R[0].norm();
            if (zeta < eps) return mc;
        }
        LMat M(n, L); for (int i = 1; i <= L; ++i) M.col(i - 1) = R[i];
        LVec y = M.colPivHouseholderQr().solve(R[0]);
        omega = y(L - 1);
        track(std::abs(omega) * R[L].norm(), R[0].norm(), 1); if (!(mc > 0)) return 0;
        for (int i = 1; i <= L; ++i) { Uv[0] -= y(i - 1) * Uv[i]; }
        LVec r0 = R[0]; for (int i = 1; i <= L; ++i) r0 -= y(i - 1) * R[i]; R[0] = r0;
        zeta = R[0].norm();
        if (!std::isfinite((double)zeta)) return 0;
    }
    return mc;
}

struct Probe {                 // what one solve is compared against
    std::vector<SC> f, x0; int maxiter; std::string tag;
};

static std::string sysdescr(const SysInfo &si) {
    std::ostringstream o; o << si.S->name << " (n=" << si.n << ", kappa2=" << si.sv.kappa << ", ||A||2=" << si.sv.smax << (si.S->spd_mmatrix ? ", SPD M-matrix" : (si.S->symmetric ? ", Hermitian" : ", nonsymmetric")) << ")";
    if (si.n <= 6) o << " A=" << sg::show(si.S->A);
    return o.str();
}

// ---------------------------------------------------------------------------------------------
// Crash isolation: a group of cases (one system x one preconditioner configuration x all solver configurations) runs in a
// forked child; counters / violations / non-trivial hashes come back through a pipe.  A child that dies (glibc heap abort,
// SIGSEGV) is an observed outcome "crash" attributed to the case it was running, and the enumeration goes on.
static bool g_in_child = false;
static std::string esc(const std::string &t) { std::string r; for (char c : t) { if (c == '\\') r += "\\\\"; else if (c == '\n') r += "\\n"; else if (c == '\t') r += "\\t"; else r += c; } return r; }
static std::string unesc(const std::string &t) { std::string r; for (size_t i = 0; i < t.size(); ++i) { if (t[i] == '\\' && i + 1 < t.size()) { char c = t[++i]; r += c == 'n' ? '\n' : c == 't' ? '\t' : c; } else r += t[i]; } return r; }
template <class Fn>
static void isolated(const std::string &group_prefix, Fn fn) {
    if (!vf::take_group()) return;
    if (vf::replaying() && vf::S().replay_key.compare(0, group_prefix.size(), group_prefix) != 0) return;
    static const bool nofork = getenv("C01_NO_FORK") != nullptr;
    if (nofork) { fn(); return; }
    fr::Result r = fr::run([&](fr::Out &out) {
        vf::State &s = vf::S();
        s.counters.clear(); s.viol.clear(); s.viol_per_sub.clear(); s.viol_total = 0; s.nontrivial.clear(); s.evals = 0;
        g_in_child = true;
        fn();
        out << "E " << s.evals << "\n";
        for (auto &kv : s.counters) out << "C " << kv.second << " " << kv.first << "\n";
        for (uint64_t h : s.nontrivial) out << "N " << h << "\n";
        for (auto &kv : s.viol_per_sub) out << "T " << kv.second << " " << kv.first << "\n";
        for (auto &v : s.viol) out << "V " << esc(v.sub) << "\t" << esc(v.key) << "\t" << esc(v.detail) << "\n";
    }, 1200);
    if (r.kind == fr::OK) {
        std::istringstream in(r.text); std::string line; std::map<std::string, long long> listed, totals;
        while (std::getline(in, line)) {
            if (line.size() < 2) continue;
            std::string body = line.substr(2);
            if (line[0] == 'E') vf::S().evals += std::atoll(body.c_str());
            else if (line[0] == 'C') { size_t sp = body.find(' '); vf::count(body.substr(sp + 1), std::atoll(body.c_str())); }
            else if (line[0] == 'N') vf::nontrivial(std::strtoull(body.c_str(), nullptr, 10));
            else if (line[0] == 'T') { size_t sp = body.find(' '); totals[body.substr(sp + 1)] = std::atoll(body.c_str()); }
            else if (line[0] == 'V') { size_t a = body.find('\t'), b = body.find('\t', a + 1); std::string sub = unesc(body.substr(0, a)); vf::fail(sub, unesc(body.substr(a + 1, b - a - 1)), unesc(body.substr(b + 1))); ++listed[sub]; }
        }
        for (auto &kv : totals) { long long extra = kv.second - listed[kv.first]; if (extra > 0) { vf::S().viol_total += extra; vf::S().viol_per_sub[kv.first] += extra; } }
    } else {
        // which case was running?
        std::string key = group_prefix, err = r.err; size_t k = err.rfind("CASE ");
        if (k != std::string::npos) { size_t e = err.find('\n', k); key = err.substr(k + 5, e == std::string::npos ? std::string::npos : e - k - 5); }
        ++vf::S().evals;
        size_t cut = err.rfind("CASE "); std::string tail = cut == std::string::npos ? err : err.substr(err.find('\n', cut) == std::string::npos ? cut : err.find('\n', cut) + 1);
        cfail("crash", key, vf::KS() << "child process died (" << r.kind_name() << " " << r.code << ") while running this case; stderr: " << tail.substr(0, 300));
    }
}

// ---------------------------------------------------------------------------------------------
// Naming of a truthfulness violation.  Two characterised groups get their own sub-check name, everything else stays
// "truthful.<solver>":
//  * bicgstab / bicgstabl: the long-double BiCG process for exactly this (A, B, f, x0, side) breaks down or comes within
//    1e3 u of a breakdown  ->  truthful.near_breakdown.<solver>   (amgcl tests rho/sigma/omega for exact zero only)
//  * idrs: the same solve with solver.replacement=true (true residual recomputed once per cycle) is truthful within the
//    bound  ->  truthful.recursive_residual_gap.idrs              (gap of the recursively updated residual)
static bool idrs_truthful_with_replacement(const SysInfo &si, const PrecondCfg &pc, SolverCfg sc, int maxiter, const std::vector<SC> &f, const std::vector<SC> &x0) {
    sc.p.put("replacement", true);
    Built b = build(si, pc, sc, maxiter);
    if (b.o.threw) return false;
    std::vector<SC> x = x0; Outcome o = solve(*b.S, f, x);
    if (o.threw || !std::isfinite(o.resid)) return false;
    ld fn = sg::norm2_ld(f); ld truth = sg::true_residual(si.S->A, f, x) / fn;
    ld bound = 32 * (ld)U * (o.iters + 2) * sqrtl((ld)si.n) * si.sv.kappa * (1 + (ld)si.sv.smax * std::max(sg::norm2_ld(x0), sg::norm2_ld(x)) / fn) + 1e-12L * o.resid;
    return fabsl((ld)o.resid - truth) <= bound;
}
static std::string truthful_subcheck(const SysInfo &si, const PrecondCfg &pc, const SolverCfg &sc, int maxiter, const std::vector<SC> &f, const std::vector<SC> &x0,
                                     const Eigen::Matrix<SC, Eigen::Dynamic, Eigen::Dynamic> *B, double reported, ld truth) {
    if ((sc.type == "bicgstab" || sc.type == "bicgstabl") && B && si.n <= 64) {
        int side = sc.side == 0 ? 0 : 1;
        if (bicg_near_breakdown(si.D, *B, f, x0, side)) return "truthful.near_breakdown." + sc.type;
        ld mc = bicgstabl_rerun_mincos(si.D, *B, f, x0, side, sc.type == "bicgstabl" ? sc.L : 1, maxiter);
        if (mc <= 1e3L * (ld)U) return "truthful.near_breakdown." + sc.type;
        // not within rounding of a breakdown, but some quotient of the recurrence (power basis A^j r, leading MR coefficient)
        // is formed from operands that cancel to below sqrt(u): at least half of the digits are lost there
        if (mc <= sqrtl((ld)U)) return "truthful.illconditioned_recurrence." + sc.type;
    }
    if (sc.type == "idrs" && (idrs_truthful_with_replacement(si, pc, sc, maxiter, f, x0) || (reported < 1e-9 && truth < 1e-9L)))
        return "truthful.recursive_residual_gap.idrs";       // gap closes with residual replacement, or both values are < tol/10
    return "truthful." + sc.type;
}

// ---------------------------------------------------------------------------------------------
// one case of the configuration product
static void run_case(const SysInfo &si, const PrecondCfg &pc, const SolverCfg &sc, const std::vector<Probe> &probes, const std::string &key, bool do_rate) {
    const System &Sy = *si.S; int n = si.n;
    if (g_in_child) { std::string c = "CASE " + key + "\n"; if (::write(2, c.data(), c.size()) < 0) {} }
    bool nontrivial = false;
    Eigen::Matrix<SC, Eigen::Dynamic, Eigen::Dynamic> B; bool haveB = false, triedB = false; sg::SvdInfo sb; double rhoE = -1; bool Bsym = false;
    std::map<int, std::unique_ptr<Solver>> cache;       // one solver object per maxiter
    for (const Probe &pr : probes) {
        auto it = cache.find(pr.maxiter);
        if (it == cache.end()) {
            Built b = build(si, pc, sc, pr.maxiter);
            if (b.o.threw) {
                if (b.o.unsupported) { vf::count("unsupported_config"); return; }
                // a constructor exception is not a returned (iters, residual); it violates only the convergence clause
                // (every coarsening x relaxation x solver works on SPD M-matrix diffusion problems)
                if (Sy.spd_mmatrix && pc.cls == 0) cfail("converges.setup_exception", key, "constructor threw: " + b.o.what + " :: " + pc.name + " :: " + sysdescr(si));
                else vf::count("setup_exception_outside_convergence_clause");
                return;
            }
            if (pc.cls == 0 && cache.empty()) { int lv = count_levels(*b.S); vf::count(lv >= 3 ? "amg_levels_ge_3" : lv == 2 ? "amg_levels_2" : "amg_levels_1"); if (lv >= 2) nontrivial = true; }
            it = cache.emplace(pr.maxiter, std::move(b.S)).first;
        }
        const Solver &S = *it->second;
        std::vector<SC> x = pr.x0;
        Outcome o = solve(S, pr.f, x);
        vf::count("solves");
        std::string where = vf::KS() << sc.name << " | " << pc.name << " | " << pr.tag << " maxiter=" << pr.maxiter << " :: " << sysdescr(si);
        if (o.threw) {
            if (o.breakdown) { vf::count("breakdown_exception." + sc.type); vf::count("breakdown_exception_by_probe." + sc.type + " " + pr.tag + (pr.maxiter == 0 ? " maxiter=0" : "")); continue; }
            cfail("solve.exception." + sc.type, key, "threw: " + o.what + " :: " + where); continue;
        }
        // (b) iteration budget
        size_t lim = pr.maxiter + (sc.type == "bicgstabl" ? sc.L - 1 : 0);
        if (o.iters > lim) cfail("iters." + sc.type, key, vf::KS() << "iters=" << o.iters << " > " << lim << " :: " << where);
        if (o.iters >= 2) nontrivial = true;
        // true residual of the returned x, from the user's arrays, on the side the solver reports
        ld fn = sg::norm2_ld(pr.f), x0n = sg::norm2_ld(pr.x0), xn = sg::norm2_ld(x);
        auto rl = sg::residual_ld(Sy.A, pr.f, x);
        ld truth_unprec = sg::norm2_ld(rl) / fn, truth = truth_unprec;
        if (sc.side == 0 && std::isfinite((double)truth_unprec)) {
            // preconditioned true residual through the same preconditioner object
            std::vector<SC> rd(n), z(n, SC());
            for (int i = 0; i < n; ++i) rd[i] = (SC)rl[i];
            { auto &&R = vec(rd); auto &&Z = vec(z); S.precond().apply(R, Z); }
            truth = sg::norm2_ld(z) / fn;
        }
        // (c) convergence on diffusion-type model problems (a non-finite result is not convergence)
        if (Sy.spd_mmatrix && pc.cls == 0 && sc.dflt && pr.maxiter == 100 && sc.type != "richardson") {
            vf::count("converges_checked." + sc.type);
            if (!(o.resid < 1e-8)) {
                std::string csub = "converges." + sc.type; bool skip = false;
                if (!triedB) { triedB = true; haveB = extract_B(S, n, B); if (haveB) sb = sg::svd_info_dense(B); }
                if (sc.type == "cg" && haveB && !((B - B.adjoint()).norm() <= 1e-10 * B.norm()))
                    csub = "converges.cg_nonsymmetric_precond";        // CG presupposes a symmetric preconditioner: measured, named separately
                if ((sc.type == "bicgstab" || sc.type == "bicgstabl") && !std::isfinite(o.resid) && haveB) {
                    // a non-finite BiCGStab result with a finite preconditioner is a division by an exactly zero rho/sigma: exact breakdown
                    skip = true; vf::count("converges_skipped_bicg_exact_breakdown_nonfinite_result." + sc.type);
                } else if ((sc.type == "bicgstab" || sc.type == "bicgstabl") && haveB && n <= 64) {
                    // exact-arithmetic breakdown of the underlying BiCG process (long-double reference on the extracted B): exempt by rule
                    ld g = 1; int kb = bicg_reference(si.D, B, pr.f, pr.x0, sc.side, g);
                    if (kb < 0 || !(64 * (ld)U * n * si.sv.kappa * sb.kappa * g <= 1e-9L)) { skip = true; vf::count("converges_skipped_bicg_reference_breakdown." + sc.type); }
                }
                if (!skip) cfail(csub, key, vf::KS() << "default tolerance not reached: iters=" << o.iters << " reported=" << o.resid << " true=" << (double)truth << " :: " << where);
            }
        }
        // (a) truthfulness
        // divergence to overflow: ||r||^2 is not representable in double (the solver's norm is inf/nan by overflow, not by rounding)
        if (!std::isfinite(o.resid) && (double)(truth_unprec * fn) > 1e150) { vf::count("diverged_overflow." + sc.type); continue; }
        if (!(std::isfinite((double)truth) && std::isfinite(o.resid) && std::isfinite((double)xn))) {
            if (!std::isfinite(o.resid) && !std::isfinite((double)truth)) { vf::count("nonfinite_reported_and_true." + sc.type); continue; }
            cfail("truthful." + sc.type, key, vf::KS() << "reported=" << o.resid << " true=" << (double)truth << " (non-finite on one side only) iters=" << o.iters << " :: " << where);
            continue;
        }
        if (si.sv.kappa > 1e4) { vf::count("truthful_skipped_kappa_gt_1e4"); continue; }
        ld bound = 32 * (ld)U * (o.iters + 2) * sqrtl((ld)n) * si.sv.kappa * (1 + (ld)si.sv.smax * std::max(x0n, xn) / fn);
        if (sc.side == 0) {
            if (!triedB) { triedB = true; haveB = extract_B(S, n, B); if (haveB) sb = sg::svd_info_dense(B); }
            if (!haveB || !(sb.smin > 0)) { vf::count("left_skipped_no_dense_B"); continue; }
            ld fac = (ld)sb.kappa * std::max(1.0, sb.smax);
            if (!(si.sv.kappa * fac <= 1e8)) { vf::count("left_skipped_kappaA_kappaB_gt_1e8"); continue; }
            bound *= fac;
            vf::count("left_preconditioned_checked");
        }
        bound += 1e-12L * o.resid;
        ld diff = fabsl((ld)o.resid - truth);
        if (!(diff <= bound)) {
            if ((sc.type == "bicgstab" || sc.type == "bicgstabl") && !triedB) { triedB = true; haveB = extract_B(S, n, B); if (haveB) sb = sg::svd_info_dense(B); }
            cfail(truthful_subcheck(si, pc, sc, pr.maxiter, pr.f, pr.x0, haveB ? &B : nullptr, o.resid, truth), key, vf::KS() << "reported=" << o.resid << " true=" << (double)truth << " |diff|=" << (double)diff << " > bound=" << (double)bound << " iters=" << o.iters << " :: " << where);
        } else if (o.resid < 1e-8 && !(truth <= 1e-8L * (1 + 1e-6L) + bound))
            cfail("truthful.tol." + sc.type, key, vf::KS() << "reported=" << o.resid << " < tol but true=" << (double)truth << " bound=" << (double)bound << " :: " << where);
        vf::count("truthful_checked." + sc.type);
        if (o.resid > 1e-6 && o.iters > 0) vf::count("truthful_checked_early_stop." + sc.type);
        { ld q = diff / bound; vf::count(q <= 1e-4L ? "margin.diff_over_bound_le_1e-4" : q <= 1e-2L ? "margin.diff_over_bound_le_1e-2" : "margin.diff_over_bound_le_1"); }
        // (d) Richardson rate
        if (do_rate && sc.type == "richardson" && Sy.symmetric && pc.cls != 2 && n <= 64 && o.iters > 0) {
            if (!triedB) { triedB = true; haveB = extract_B(S, n, B); if (haveB) sb = sg::svd_info_dense(B); }
            if (haveB && rhoE < 0) {
                Bsym = (B - B.adjoint()).norm() <= 1e-10 * B.norm();
                if (Bsym) {
                    Eigen::Matrix<SC, Eigen::Dynamic, Eigen::Dynamic> E = Eigen::Matrix<SC, Eigen::Dynamic, Eigen::Dynamic>::Identity(n, n) - B * si.D;
                    Eigen::ComplexEigenSolver<Eigen::MatrixXcd> es(E.template cast<std::complex<double>>(), false);
                    rhoE = 0; for (int i = 0; i < n; ++i) rhoE = std::max(rhoE, std::abs(es.eigenvalues()(i)));
                } else rhoE = 2;
            }
            if (haveB && Bsym && rhoE < 1) {
                ld r0 = sg::true_residual(Sy.A, pr.f, pr.x0);
                ld rk = sg::norm2_ld(rl);
                ld lim2 = sqrtl((ld)si.sv.kappa) * powl((ld)rhoE * (1 + 1e-10L), (ld)o.iters) * r0 * (1 + 1e-8L) + bound * fn;
                if (r0 > 0 && !(rk <= lim2))
                    cfail("richardson.rate", key, vf::KS() << "||r_k||=" << (double)rk << " > sqrt(kappa) rho^k ||r_0|| = " << (double)lim2 << " (rho(I-BA)=" << rhoE << ", k=" << o.iters << ") :: " << where);
                vf::count("richardson_rate_checked");
            } else vf::count(haveB && !Bsym ? "richardson_rate_skipped_B_not_symmetric" : "richardson_rate_skipped_rho_ge_1");
        }
    }
    if (nontrivial) vf::nontrivial(vf::hstr(key));
}

// ---------------------------------------------------------------------------------------------
static std::vector<Probe> make_probes(const SysInfo &si, const std::vector<int> &rhs, const std::vector<int> &x0s, const std::vector<int> &maxiters) {
    std::vector<Probe> v;
    for (int r : rhs) { auto f = sg::rhs(r, si.S->A); for (int g : x0s) { auto x0 = sg::guess(g, si.S->A, f); for (int m : maxiters) {
        Probe p; p.f = f; p.x0 = x0; p.maxiter = m; p.tag = vf::KS() << "rhs=" << sg::rhs_name(r) << " x0=" << sg::x0_name(g); v.push_back(p); } } }
    return v;
}
static SysInfo info(const System &S) { SysInfo si; si.S = &S; si.n = S.A.n; si.D = sg::dense(S.A); si.sv = sg::svd_info_dense(si.D); return si; }

static void product_section(const std::vector<System> &systems, const std::vector<PrecondCfg> &pcs, const std::vector<SolverCfg> &scs, const std::string &tag, int level) {
    int idx = 0;
    for (const System &S : systems) {
        SysInfo si = info(S);
        std::vector<Probe> probes;
        if (level == 0) probes = make_probes(si, {sg::RHS_ONES, sg::RHS_A_RAMP}, {sg::X0_ZERO, sg::X0_RAMP}, {2, 7, 100});
        else if (level == 2) probes = make_probes(si, {0, 1, 2, 3, 4}, {0, 1, 2, 3}, {0, 1, 2, 3, 7, 100});         // complete product
        else {
            // rotating selection: over the family every rhs / x0 / maxiter value occurs with every config
            static const int MI[6] = {0, 1, 2, 3, 7, 100};
            probes = make_probes(si, {idx % 5, (idx + 2) % 5}, {idx % 4, (idx + 1) % 4}, {MI[idx % 6], MI[(idx + 3) % 6], 100});
        }
        for (const PrecondCfg &pc : pcs) {
            std::string prefix = vf::KS() << SEC << "|" << tag << "|" << S.name << "|" << pc.name << "|";
            isolated(prefix, [&] {
                for (const SolverCfg &sc : scs) {
                    std::string key = prefix + sc.name;
                    if (!vf::take_in_group([&] { return key; })) continue;
                    run_case(si, pc, sc, probes, key, true);
                }
            });
        }
        ++idx;
    }
}

// cycle / level parameter sweep
static void cycle_section(const std::vector<System> &systems, const std::vector<std::pair<const char*, const char*>> &pairs, const std::vector<SolverCfg> &scs, bool full) {
    for (const System &S : systems) {
        SysInfo si = info(S);
        auto probes = make_probes(si, {sg::RHS_A_RAMP}, {sg::X0_ONES}, {2, 100});
        int nb = si.n / BS;
        for (auto &cr : pairs) for (int ncycle : {1, 2}) for (int npre : {0, 1, 2}) for (int npost : {0, 1, 2}) for (int pre_cycles : {1, 2})
            for (int ml : {1, 2, 0}) for (int ce : {1, std::max(2, nb / 4), nb + 1}) for (int dc = 0; dc < 2; ++dc) {
                if (npre == 0 && npost == 0) continue;
                if (!full && !((ncycle == 1 && pre_cycles == 1) || (npre == 1 && npost == 1))) continue;       // quick: vary cycle shape or sweep counts, not both
                PrecondCfg pc; pc.cls = 0; pc.coars = cr.first; pc.relax = cr.second;
                pc.cy.ncycle = ncycle; pc.cy.npre = npre; pc.cy.npost = npost; pc.cy.pre_cycles = pre_cycles; pc.cy.max_levels = ml; pc.cy.coarse_enough = ce; pc.cy.direct_coarse = dc;
                pc.name = vf::KS() << "amg:" << cr.first << "+" << cr.second << ",ncycle=" << ncycle << ",npre=" << npre << ",npost=" << npost << ",pre_cycles=" << pre_cycles
                                   << ",max_levels=" << ml << ",coarse_enough=" << ce << ",direct_coarse=" << dc;
                std::string prefix = vf::KS() << SEC << "|cyc|" << S.name << "|" << pc.name << "|";
                isolated(prefix, [&] {
                    for (const SolverCfg &sc : scs) {
                        std::string key = prefix + sc.name;
                        if (!vf::take_in_group([&] { return key; })) continue;
                        run_case(si, pc, sc, probes, key, false);
                    }
                });
            }
    }
}

// (e) power-of-two scaling of f and x0
static void scaling_section(const std::vector<System> &systems, const std::vector<PrecondCfg> &pcs, const std::vector<SolverCfg> &scs) {
    for (const System &S : systems) {
        SysInfo si = info(S);
        for (const PrecondCfg &pc : pcs) for (const SolverCfg &sc : scs) {
            std::string key = vf::KS() << SEC << "|scale|" << S.name << "|" << pc.name << "|" << sc.name;
            if (!vf::take([&] { return key; })) continue;
            for (int maxiter : {3, 100}) {
                Built b = build(si, pc, sc, maxiter);
                if (b.o.threw) { if (b.o.unsupported) vf::count("unsupported_config"); else cfail("setup.exception", key, b.o.what); break; }
                for (int g : {sg::X0_ZERO, sg::X0_RAMP}) {
                    auto f = sg::rhs(sg::RHS_A_RAMP, S.A); if (g == sg::X0_ZERO) f = sg::rhs(sg::RHS_ALT, S.A);
                    auto x0 = sg::guess(g, S.A, f);
                    std::vector<SC> x = x0; Outcome o = solve(*b.S, f, x); vf::count("solves");
                    for (int k : {-20, 20}) {
                        double s = std::ldexp(1.0, k);
                        std::vector<SC> fs = f, xs = x0; for (auto &e : fs) e *= s; for (auto &e : xs) e *= s;
                        Outcome os = solve(*b.S, fs, xs); vf::count("solves");
                        std::string where = vf::KS() << sc.name << " | " << pc.name << " | scale 2^" << k << " x0=" << sg::x0_name(g) << " maxiter=" << maxiter << " :: " << sysdescr(si);
                        if (o.threw != os.threw) { cfail("scaling." + sc.type, key, "exception in one run only (" + o.what + os.what + ") :: " + where); continue; }
                        if (o.threw) { vf::count("breakdown_exception." + sc.type); continue; }
                        if (!std::isfinite(o.resid) || !std::isfinite(os.resid)) { vf::count("scaling_skipped_nonfinite"); continue; }      // overflow is an absolute threshold
                        bool same = o.iters == os.iters && std::memcmp(&o.resid, &os.resid, sizeof(double)) == 0;
                        size_t bad = 0; for (size_t i = 0; i < x.size(); ++i) { SC e = x[i] * s; if (std::memcmp(&e, &xs[i], sizeof(SC)) != 0 && !(e == xs[i])) ++bad; }
                        if (!same || bad)
                            cfail("scaling." + sc.type, key, vf::KS() << "(iters,resid) " << o.iters << "," << o.resid << " -> " << os.iters << "," << os.resid << "; " << bad << " of " << x.size() << " solution entries not scaled exactly :: " << where);
                        vf::count("scaling_checked");
                        if (o.iters >= 2) vf::nontrivial(vf::hstr(key));
                    }
                }
            }
        }
    }
}

// tiny but non-zero right-hand side
static void tiny_section(const System &S, const std::vector<PrecondCfg> &pcs, const std::vector<SolverCfg> &scs) {
    SysInfo si = info(S);
    for (const PrecondCfg &pc : pcs) for (const SolverCfg &sc : scs) {
        std::string key = vf::KS() << SEC << "|tiny|" << S.name << "|" << pc.name << "|" << sc.name;
        if (!vf::take([&] { return key; })) continue;
        Built b = build(si, pc, sc, 100);
        if (b.o.threw) { if (b.o.unsupported) vf::count("unsupported_config"); else cfail("setup.exception", key, b.o.what); continue; }
        for (int k : {-40, -60}) {
            auto f = sg::rhs(sg::RHS_ONES, S.A); for (auto &e : f) e *= std::ldexp(1.0, k);
            std::vector<SC> x(si.n, SC());
            Outcome o = solve(*b.S, f, x); vf::count("solves");
            if (o.threw) { vf::count("breakdown_exception." + sc.type); continue; }
            ld fn = sg::norm2_ld(f); ld truth = sg::true_residual(S.A, f, x) / fn;
            if (sc.side == 0) continue;            // left: compared on the unpreconditioned side only (dummy/right/none)
            ld bound = 32 * (ld)U * (o.iters + 2) * sqrtl((ld)si.n) * si.sv.kappa * (1 + (ld)si.sv.smax * sg::norm2_ld(x) / fn) + 1e-12L * o.resid;
            bool nz = false; for (auto &e : x) if (e != SC()) nz = true;
            vf::count(nz ? "tiny_rhs_solved" : "tiny_rhs_returned_zero_solution");
            if (!(fabsl((ld)o.resid - truth) <= bound))
                cfail("truthful.tiny_rhs." + sc.type, key, vf::KS() << "f = 2^" << k << " * ones (||f||=" << (double)fn << "): returned iters=" << o.iters << " reported=" << o.resid << " x " << (nz ? "!=" : "==") << " 0, true relative residual " << (double)truth
                         << " bound=" << (double)bound << " :: " << sc.name << " | " << pc.name << " :: " << sysdescr(si));
            vf::nontrivial(vf::hstr(key));
        }
    }
}

// ---------------------------------------------------------------------------------------------
// "exception or truthful result" for the short-recurrence methods on the enumerated small nonsymmetric systems (the C05
// family): these contain systems on which the underlying Lanczos process breaks down in exact arithmetic.  amgcl tests
// rho / omega / M[k,k] for EXACT zero only; under rounding a breakdown is 1e-16, passes, and the recurrence continues.
#if !defined(C01_COMPLEX) && !defined(C01_BLOCK)
static void breakdown_section(bool thorough) {
    std::vector<SolverCfg> cfgs;
    auto add = [&](const std::string &name, const char *type, int L, std::initializer_list<std::pair<const char*, std::string>> kv) {
        SolverCfg c; c.name = name; c.type = type; c.side = (std::string(type) == "idrs") ? 2 : 1; c.L = L; c.dflt = false; c.p.put("type", type);
        for (auto &e : kv) c.p.put(e.first, e.second);
        cfgs.push_back(c);
    };
    add("bicgstab.right", "bicgstab", 0, {{"pside", "right"}});
    for (int L : {1, 2, 4}) add(vf::KS() << "bicgstabl" << L << ".right", "bicgstabl", L, {{"L", std::to_string(L)}, {"pside", "right"}});
    add("idrs1", "idrs", 0, {{"s", "1"}});
    add("idrs2", "idrs", 0, {{"s", "2"}});
    PrecondCfg pc; pc.cls = 2; pc.name = "dummy";
    long nsys = 0;
    for (int n = 2; n <= 4; ++n) for (uint32_t mask = 0; mask < (1u << sg::pattern_bits(n, sg::PAT_NONSYM)); ++mask) {
        if (n == 4 && !thorough && !vf::replaying() && !sg::pattern_sym_or_triangular(n, mask) && mask != 3167 && mask != 4012) continue;   // 3167 / 4012: the smallest known silent-breakdown inputs of bicgstab / idrs
        System S; bool built = false; SysInfo si;
        for (int x0k = 0; x0k < 2; ++x0k) for (int rk = 0; rk < 2; ++rk) for (const SolverCfg &sc : cfgs) {
            std::string key = vf::KS() << SEC << "|brk|n" << n << "_m" << mask << "_x" << x0k << "_r" << rk << "|dummy|" << sc.name;
            if (!vf::take([&] { return key; })) continue;
            if (!built) { S = sg::make_system(sg::dominant_pattern<SC>(n, mask, sg::PAT_NONSYM), "pattern", vf::KS() << "pattern_n" << n << "_m" << mask); si = info(S); built = true; }
            si.S = &S;
            std::vector<SC> f = sg::pattern_rhs<SC>(n, rk), x = sg::pattern_x0<SC>(n, x0k), x0 = x;
            Built b = build(si, pc, sc, -1);
            if (b.o.threw) { cfail("setup.exception", key, b.o.what); continue; }
            Outcome o = solve(*b.S, f, x); vf::count("solves");
            if (o.threw) { if (o.breakdown) vf::count("breakdown_exception." + sc.type); else cfail("solve.exception." + sc.type, key, o.what); continue; }
            ld fn = sg::norm2_ld(f); ld truth = sg::true_residual(S.A, f, x) / fn;
            if (!std::isfinite(o.resid) && !std::isfinite((double)truth)) { vf::count("nonfinite_reported_and_true." + sc.type); vf::count("brk_nonfinite_result_without_exception." + sc.type); continue; }
            ld bound = 32 * (ld)U * (o.iters + 2) * sqrtl((ld)n) * si.sv.kappa * (1 + (ld)si.sv.smax * std::max(sg::norm2_ld(x0), sg::norm2_ld(x)) / fn) + 1e-12L * o.resid;
            ld diff = fabsl((ld)o.resid - truth);
            if (!(diff <= bound)) {
                Eigen::Matrix<SC, Eigen::Dynamic, Eigen::Dynamic> I = Eigen::Matrix<SC, Eigen::Dynamic, Eigen::Dynamic>::Identity(n, n);
                cfail(truthful_subcheck(si, pc, sc, -1, f, x0, &I, o.resid, truth), key, vf::KS() << "reported=" << o.resid << " true=" << (double)truth << " |diff|=" << (double)diff << " > bound=" << (double)bound << " iters=" << o.iters << " (no exception raised) :: " << sc.name
                         << " | dummy | A=" << sg::show(S.A) << " f=" << sg::showv(f) << " x0=" << sg::showv(x0) << " kappa2=" << si.sv.kappa);
            }
            vf::count("brk_truthful_checked." + sc.type);
            if (o.iters >= 2) vf::nontrivial(vf::hstr(key));
        }
        ++nsys;
    }
    vf::space(vf::KS() << "undetected breakdown: " << nsys << " nonsymmetric dominant-diagonal patterns n=2..4 " << (thorough ? "(all)" : "(n=4: symmetric or triangular patterns)") << " x x0{0,ramp} x rhs{general,e1} x {bicgstab, bicgstabl L=1,2,4, idrs s=1,2}, identity preconditioner, default tol/maxiter");
}
#endif

// ---------------------------------------------------------------------------------------------
int main(int argc, char **argv) {
    vf::init(argc, argv, "C01");
    if (!vf::section(SEC)) return vf::finish();
    bool T = vf::thorough();
    auto scs = solver_cfgs();
    auto pcs = base_preconds();
    std::vector<SolverCfg> scs_few; for (auto &s : scs) if (s.name == "bicgstab.right" || s.name == "gmres30.left" || (T && (s.name == "cg" || s.name == "richardson"))) scs_few.push_back(s);
    auto pick = [&](std::initializer_list<const char*> names) { std::vector<PrecondCfg> v; for (auto nm : names) for (auto &p : pcs) if (p.name == nm) v.push_back(p); return v; };

#if defined(C01_COMPLEX)
    std::vector<System> sys0 = sg::complex_systems(0), sys = sg::complex_systems(T ? 1 : 0);
    if (!T || vf::replaying()) product_section(sys0, pcs, scs, "prod0", 0);
    if (T) product_section(sys, pcs, scs, "prod1", 1);
    vf::space(vf::KS() << "complex: " << sys.size() << " systems (shifted / Hermitian / real-valued Laplacians) x 46 preconditioner configs x " << scs.size() << " solver configs x (rhs,x0,maxiter) probes");
    scaling_section({sys0[0]}, pick({"dummy", "amg:smoothed_aggregation+spai0", "relax:ilu0"}), scs);
    tiny_section(sys0[0], pick({"dummy"}), scs);
    vf::space("complex: power-of-two scaling and tiny rhs on the first system x {dummy, SA+spai0, ilu0} x all solver configs");
#elif defined(C01_BLOCK)
    std::vector<System> all = sg::kron_systems(T ? 1 : 0), sys;
    for (auto &s : all) if (s.A.n % BS == 0 && s.name.find("I3") == std::string::npos) sys.push_back(s);
    std::vector<System> sys0; for (auto &s : sg::kron_systems(0)) if (s.A.n % BS == 0 && s.name.find("I3") == std::string::npos) sys0.push_back(s);
    if (!T || vf::replaying()) product_section(sys0, pcs, scs, "prod0", 0);
    if (T) product_section(sys, pcs, scs, "prod1", 1);
    vf::space(vf::KS() << "2x2-block valued (A (x) I2, A (x) B2 through adapter::block_matrix, static_matrix<double,2,2>): " << sys.size() << " systems x 46 preconditioner configs x " << scs.size() << " solver configs (unsupported combinations counted)");
    scaling_section({sys0[0]}, pick({"dummy", "amg:smoothed_aggregation+spai0", "relax:ilu0"}), scs);
    tiny_section(sys0[0], pick({"dummy"}), scs);
    vf::space("block: power-of-two scaling and tiny rhs on the first system");
#else
    // ---- configuration product on the grid / convection-diffusion / Kronecker families
    std::vector<System> sys0 = sg::real_systems(0), sys = sg::real_systems(T ? 1 : 0);
    if (!T || vf::replaying()) product_section(sys0, pcs, scs, "prod0", 0);      // the key carries the probe set (prod0 / prod1 / full)
    if (T) product_section(sys, pcs, scs, "prod1", 1);
    vf::space(vf::KS() << "configuration product: " << sys.size() << " systems (1-D/2-D/3-D diffusion with contrast masks, anisotropy, upwind convection-diffusion, Kronecker) x 46 preconditioner configs (4 coarsenings x 9 relaxations, 9 relaxations alone, dummy) x "
              << scs.size() << " solver configs x " << (T ? "rotating (2 rhs x 2 x0 x 3 maxiter) selection covering rhs{e1,1,alt,A1,Aramp} x0{0,1,ramp,exact} maxiter{0,1,2,3,7,100}" : "rhs{1,A*ramp} x x0{0,ramp} x maxiter{2,7,100}"));
    if (T) {
        std::vector<System> core; for (auto &s : sys) for (auto nm : {"grid2d_4x4_uniform_c1", "grid2d_6x5_checker_c100", "grid1d_8_stripeX_c10", "grid3d_3_uniform_c1", "convdiff2d_6_pe2_b(1,0.5)", "aniso2d_6_eps0.01"}) if (s.name == nm) core.push_back(s);
        product_section(core, pcs, scs, "full", 2);
        vf::space(vf::KS() << "complete rhs(5) x x0(4) x maxiter(6) product on " << core.size() << " core systems x all 46 x " << scs.size() << " configs");
    }
    // ---- variable (nested, non-linear) preconditioner: truthfulness must not rest on the preconditioner being a fixed linear
    //      operator.  Right / unpreconditioned-residual configurations only (a left-preconditioned residual has no meaning here).
    {
        std::vector<PrecondCfg> np;
        for (int k : {1, 2, 3}) { PrecondCfg p; p.cls = 3; p.inner_iters = k; p.name = std::string("nested:sa+spai0+cg") + std::to_string(k); np.push_back(p); }
        std::vector<SolverCfg> rs; for (auto &sc : scs) if (sc.side != 0 && sc.type != "richardson") rs.push_back(sc);
        std::vector<System> ns; for (auto &s : sys0) if (s.spd_mmatrix && s.A.n >= 16 && ns.size() < (T ? 6u : 3u)) ns.push_back(s);
        product_section(ns, np, rs, "nest", 0);
        vf::space(vf::KS() << "nested preconditioner (inner AMG+CG limited to 1,2,3 iterations) x " << ns.size() << " SPD systems x " << rs.size() << " right/none-side solver configs");
    }
    // ---- all connected graphs
    {
        std::vector<System> gs = sg::graph_systems(2, T ? 5 : 4, {0.5}, T ? std::vector<int>{0, 2} : std::vector<int>{0});
        std::vector<PrecondCfg> gp;
        for (auto c : COARS) for (auto r : {"spai0", "gauss_seidel", "ilu0"}) { PrecondCfg p; p.cls = 0; p.coars = c; p.relax = r; p.cy.coarse_enough = 1; p.name = std::string("amg:") + c + "+" + r + ",coarse_enough=1"; gp.push_back(p); }
        for (auto &p : pick({"dummy", "relax:damped_jacobi"})) gp.push_back(p);
        for (const System &S : gs) {
            SysInfo si = info(S);
            auto probes = make_probes(si, {sg::RHS_E1}, {sg::X0_ZERO, sg::X0_ONES}, {1, 100});
            for (auto &pc : gp) {
                std::string prefix = vf::KS() << SEC << "|graph|" << S.name << "|" << pc.name << "|";
                isolated(prefix, [&] {
                    for (auto &sc : scs) {
                        std::string key = prefix + sc.name;
                        if (!vf::take_in_group([&] { return key; })) continue;
                        run_case(si, pc, sc, probes, key, true);
                    }
                });
            }
        }
        vf::space(vf::KS() << "graph Laplacians + 0.5 I on ALL " << gs.size() << " labelled connected graphs with 2.." << (T ? 5 : 4) << " nodes" << (T ? " (unit and contrast weights)" : "") << " x 14 preconditioner configs (coarse_enough=1) x " << scs.size() << " solver configs");
    }
    // ---- cycle / level parameters
    {
        std::vector<System> cs; for (auto &s : sys) if (s.name == "grid2d_4x4_uniform_c1" || (T && s.name == "convdiff2d_6_pe2_b(1,0.5)")) cs.push_back(s);
        std::vector<std::pair<const char*, const char*>> pairs;
        if (T) { for (auto c : COARS) for (auto r : {"spai0", "gauss_seidel", "ilu0"}) pairs.push_back({c, r}); }
        else pairs = {{"smoothed_aggregation", "spai0"}, {"ruge_stuben", "gauss_seidel"}};
        cycle_section(cs, pairs, scs_few, T);
        vf::space(vf::KS() << "cycle/level parameters: ncycle{1,2} x npre,npost{0,1,2}^2\\{0,0} x pre_cycles{1,2} x max_levels{1,2,inf} x coarse_enough{1,n/4,n+1} x direct_coarse{0,1}" << (T ? " (full product)" : " (cycle shape and sweep counts varied separately)")
                  << " x " << pairs.size() << " coarsening/relaxation pairs x " << scs_few.size() << " solvers x " << cs.size() << " systems");
    }
    // ---- metamorphic scaling, tiny rhs
    {
        std::vector<System> ss; for (auto &s : sys) if (s.name == "grid2d_4x4_uniform_c1" || s.name == "convdiff2d_6_pe2_b(1,0.5)" || (T && s.name == "grid3d_3_checker_c100")) ss.push_back(s);
        scaling_section(ss, pick({"dummy", "amg:smoothed_aggregation+spai0", "amg:ruge_stuben+gauss_seidel", "amg:aggregation+chebyshev", "relax:ilu0", "amg:smoothed_aggr_emin+ilut"}), scs);
        vf::space(vf::KS() << "power-of-two scaling 2^{-20,+20} of (f,x0): " << ss.size() << " systems x 6 preconditioners x " << scs.size() << " solver configs x x0{0,ramp} x maxiter{3,100}");
        tiny_section(ss[0], pick({"dummy", "amg:smoothed_aggregation+spai0"}), scs);
        vf::space("tiny non-zero rhs f = 2^-40, 2^-60 * ones x {dummy, SA+spai0} x all solver configs");
    }
    breakdown_section(T);
#endif
    vf::sample_str("system grid2d_4x4_checker_c100: " + sg::show(sg::grid_diffusion(4, 4, 1, sg::coef_mask(sg::COEF_CHECKER, 100))).substr(0, 400));
    return vf::finish();
}
