// C16 unit "dense" -- small dense kernels:
//  * detail::inverse / math::inverse(static_matrix): A*inv(A) == I == inv(A)*A exactly over the
//    rationals (and Gaussian rationals) for every nonsingular matrix of the enumerated sets;
//    in double / complex<double> a residual bound derived from LU with partial pivoting.
//  * static_matrix arithmetic: every operator against plain loops, and the algebra identities
//    over all triples of small-integer matrices (exact in double).
//  * detail::QR: every shape 1..12 x 1..12, both storage orders, several integer contents
//    (full rank, rank deficient, zero columns), real / complex / 2x2-block values:
//    A = Q[:, :p] R[:p, :], Q^H Q = I, R upper triangular, and for full-rank systems the
//    least-squares (normal equations) / minimum-norm (exact projection on null(A)) conditions.
#include <complex>
#include <cmath>
#include <amgcl/backend/builtin.hpp>
#include <amgcl/detail/inverse.hpp>
#include <amgcl/detail/qr.hpp>
#include "C16_common.hpp"

namespace amgcl { namespace math {
// pivot-size proxy for Gaussian rationals (|z| itself is not rational)
template <> struct norm_impl<c16::QC> { static c16::Q get(const c16::QC &x) { return (x.re < 0 ? c16::Q(-x.re) : x.re) + (x.im < 0 ? c16::Q(-x.im) : x.im); } };
} }

using namespace amgcl;
using namespace c16;
typedef long double LD;
typedef std::complex<LD> CLD;

// ============================================================================ inverse
template <int N, class F> static Mat<F> to_mat(const static_matrix<F, N, N> &a) { Mat<F> M(N, N); for (int i = 0; i < N; ++i) for (int j = 0; j < N; ++j) M(i, j) = a(i, j); return M; }
template <class F> static Mat<F> eye(int n) { Mat<F> I(n, n); for (int i = 0; i < n; ++i) I(i, i) = F(1); return I; }

static inline Q   fromint(Q*, int re, int) { return Q(re); }
static inline QC  fromint(QC*, int re, int im) { return QC(Q(re), Q(im)); }
static inline double fromint(double*, int re, int) { return re; }
static inline float fromint(float*, int re, int) { return (float)re; }
static inline std::complex<double> fromint(std::complex<double>*, int re, int im) { return std::complex<double>(re, im); }
template <class T> struct exact_of { typedef T type; static const bool exact = true; static const bool cplx = false; };
template <> struct exact_of<QC> { typedef QC type; static const bool exact = true; static const bool cplx = true; };
template <> struct exact_of<double> { typedef Q type; static const bool exact = false; static const bool cplx = false; };
template <> struct exact_of<std::complex<double>> { typedef QC type; static const bool exact = false; static const bool cplx = true; };
static inline CLD toC(double x) { return CLD(x, 0); }
static inline CLD toC(std::complex<double> x) { return CLD(x.real(), x.imag()); }

// digits: entry values (re, im) enumerated from a list
template <class T, int N>
static void inverse_space(const char *tn, const std::vector<std::pair<int,int>> &vals, const char *valdesc) {
    typedef typename exact_of<T>::type F;
    const int E = N * N; const int nv = (int)vals.size();
    uint64_t total = 1; for (int i = 0; i < E; ++i) total *= nv;
    int maxabs = 0; for (auto &p : vals) maxabs = std::max(maxabs, std::abs(p.first) + std::abs(p.second));
    for (uint64_t code = 0; code < total; ++code) {
        if (!vf::take([&]{ return std::string(vf::KS() << "inv|" << tn << "|" << N << "|" << code); })) continue;
        std::string key = vf::KS() << "inv|" << tn << "|" << N << "|" << code;
        Mat<F> A(N, N); static_matrix<T, N, N> a; uint64_t c = code;
        for (int i = 0; i < E; ++i) { auto p = vals[c % nv]; c /= nv; A.a[i] = fromint((F*)0, p.first, p.second); a(i) = fromint((T*)0, p.first, p.second); }
        if (is0(det(A))) { vf::count(std::string("inverse_singular_skipped.") + tn); continue; }
        vf::nontrivial(vf::hstr(key)); vf::count(std::string("inverse_nonsingular.") + tn);
        // (1) math::inverse on the static matrix, (2) detail::inverse on a raw row-major array
        static_matrix<T, N, N> x1;
        std::vector<T> raw(a.data(), a.data() + E), t(E); std::vector<int> p(N);
        try { x1 = math::inverse(a); detail::inverse(N, raw.data(), t.data(), p.data()); }
        catch (const std::exception &e) { vf::fail(std::string("inverse.exception[") + tn + "]", key, "A=" + show(A) + " is nonsingular but the inverse threw: " + e.what()); continue; }
        for (int which = 0; which < 2; ++which) {
            const T *X = which ? raw.data() : x1.data();
            if constexpr (exact_of<T>::exact) {
                Mat<F> Xm(N, N); for (int i = 0; i < E; ++i) Xm.a[i] = X[i];
                if (!same(mul(A, Xm), eye<F>(N)) || !same(mul(Xm, A), eye<F>(N)))
                    vf::fail(std::string(which ? "detail_inverse.exact[" : "math_inverse.exact[") + tn + "]", key, "A=" + show(A) + " inv=" + show(Xm) + ": A*inv(A) or inv(A)*A differs from I");
            } else {
                const LD u = (exact_of<T>::cplx ? 5.66L : 1.0L) * 0x1p-53L; const int k = 3 * N + 3; const LD gam = k * u / (1 - k * u);
                LD growth = N * std::ldexp(1.0L, N - 1) * maxabs;
                for (int i = 0; i < N; ++i) for (int j = 0; j < N; ++j) {
                    CLD s(i == j ? -1 : 0, 0); LD colsum = 0;
                    for (int q = 0; q < N; ++q) { s += toC(a(i, q)) * toC(X[q * N + j]); colsum += std::abs(toC(X[q * N + j])); }
                    LD bound = 2 * gam * growth * colsum;
                    if (!(std::abs(s) <= bound)) { vf::fail(std::string(which ? "detail_inverse.residual[" : "math_inverse.residual[") + tn + "]", key, vf::KS() << "A=" << show(A) << ": |A*inv(A)-I|(" << i << "," << j << ")=" << (double)std::abs(s) << " > bound " << (double)bound); i = N; break; }
                }
            }
        }
    }
    vf::space(vf::KS() << "inverse " << tn << ": all " << N << "x" << N << " matrices with entries in " << valdesc << " (" << total << "), nonsingular ones checked");
}

// ============================================================================ static_matrix algebra
typedef static_matrix<double, 2, 2> M2;
typedef static_matrix<std::complex<double>, 2, 2> C2;
static M2 m2(int code) { static const int v[4] = {-1, 0, 1, 2}; M2 a; for (int i = 0; i < 4; ++i) { a(i) = v[code % 4]; code /= 4; } return a; }
static C2 c2(int code) { static const std::complex<double> v[4] = {{0, 0}, {1, 0}, {0, 1}, {-1, -1}}; C2 a; for (int i = 0; i < 4; ++i) { a(i) = v[code % 4]; code /= 4; } return a; }
template <class T, int N, int M> static bool eqm(const static_matrix<T, N, M> &a, const static_matrix<T, N, M> &b) { for (int i = 0; i < N * M; ++i) if (!(a(i) == b(i))) return false; return true; }
template <class T, int N, int M> static std::string sm(const static_matrix<T, N, M> &a) { std::ostringstream o; o << "["; for (int i = 0; i < N; ++i) { if (i) o << ";"; for (int j = 0; j < M; ++j) o << (j ? " " : "") << a(i, j); } o << "]"; return o.str(); }

static void run_algebra() {
    // definitions, all pairs
    for (int ia = 0; ia < 256; ++ia) {
        if (!vf::take([&]{ return std::string(vf::KS() << "alg2|" << ia); })) continue;
        std::string key = vf::KS() << "alg2|" << ia;
        M2 A = m2(ia);
        vf::nontrivial(vf::hstr(key));
        for (int ib = 0; ib < 256; ++ib) {
            M2 B = m2(ib), S, D, P, Neg;
            for (int i = 0; i < 2; ++i) for (int j = 0; j < 2; ++j) { S(i, j) = A(i, j) + B(i, j); D(i, j) = A(i, j) - B(i, j); Neg(i, j) = -A(i, j); double s = 0; for (int k = 0; k < 2; ++k) s += A(i, k) * B(k, j); P(i, j) = s; }
            std::string ab = "A=" + sm(A) + " B=" + sm(B);
            if (!eqm(A + B, S)) vf::fail("static_matrix.plus", key, ab);
            if (!eqm(A - B, D)) vf::fail("static_matrix.minus", key, ab);
            if (!eqm(A * B, P)) vf::fail("static_matrix.product", key, ab + " got " + sm(A * B) + " want " + sm(P));
            if (!eqm(-A, Neg)) vf::fail("static_matrix.negate", key, ab);
            { M2 T = A; T += B; if (!eqm(T, S)) vf::fail("static_matrix.plus_assign", key, ab); T = A; T -= B; if (!eqm(T, D)) vf::fail("static_matrix.minus_assign", key, ab); }
            if (!eqm(A + B, B + A)) vf::fail("static_matrix.identity.commutative_plus", key, ab);
            if (!eqm(A - B, A + (-B))) vf::fail("static_matrix.identity.minus_is_plus_negative", key, ab);
            if (!eqm(math::adjoint(A * B), math::adjoint(B) * math::adjoint(A))) vf::fail("static_matrix.identity.adjoint_of_product", key, ab);
            for (double c : {-1.0, 0.0, 2.0, 0.5}) {
                M2 Sc; for (int i = 0; i < 4; ++i) Sc(i) = c * A(i);
                if (!eqm(c * A, Sc)) vf::fail("static_matrix.scalar_times", key, ab);
                M2 T = A; T *= c; if (!eqm(T, Sc)) vf::fail("static_matrix.times_assign", key, ab);
                if (!eqm(c * (A * B), (c * A) * B) || !eqm(c * (A * B), A * (c * B))) vf::fail("static_matrix.identity.scalar_through_product", key, ab);
                if (!eqm(c * (A + B), c * A + c * B)) vf::fail("static_matrix.identity.scalar_distributes", key, ab);
            }
            // complex: adjoint definition and anti-multiplicativity
            C2 CA = c2(ia), CB = c2(ib), AH, PH;
            for (int i = 0; i < 2; ++i) for (int j = 0; j < 2; ++j) AH(j, i) = std::conj(CA(i, j));
            if (!eqm(math::adjoint(CA), AH)) vf::fail("static_matrix.adjoint.complex", key, "A=" + sm(CA));
            if (!eqm(math::adjoint(CA * CB), math::adjoint(CB) * math::adjoint(CA))) vf::fail("static_matrix.identity.adjoint_of_product.complex", key, "A=" + sm(CA) + " B=" + sm(CB));
            // rectangular: (2x1 rhs) products and inner products
            static_matrix<double, 2, 1> x, y; x(0) = B(0, 0); x(1) = B(1, 1); y(0) = B(0, 1); y(1) = B(1, 0);
            static_matrix<double, 2, 1> Ax = A * x;
            if (Ax(0) != A(0, 0) * x(0) + A(0, 1) * x(1) || Ax(1) != A(1, 0) * x(0) + A(1, 1) * x(1)) vf::fail("static_matrix.matvec", key, ab);
            if (math::inner_product(x, y) != x(0) * y(0) + x(1) * y(1)) vf::fail("static_matrix.inner_product", key, ab);
            static_matrix<double, 2, 3> R23; static_matrix<double, 3, 2> R32;
            for (int i = 0; i < 2; ++i) for (int j = 0; j < 3; ++j) { R23(i, j) = A(i, j % 2) + j; R32(j, i) = B(j % 2, i) - j; }
            static_matrix<double, 2, 2> RR = R23 * R32; static_matrix<double, 3, 3> RR3 = R32 * R23;
            for (int i = 0; i < 2; ++i) for (int j = 0; j < 2; ++j) { double s = 0; for (int k = 0; k < 3; ++k) s += R23(i, k) * R32(k, j); if (RR(i, j) != s) vf::fail("static_matrix.rectangular_product", key, ab); }
            for (int i = 0; i < 3; ++i) for (int j = 0; j < 3; ++j) { double s = 0; for (int k = 0; k < 2; ++k) s += R32(i, k) * R23(k, j); if (RR3(i, j) != s) vf::fail("static_matrix.rectangular_product", key, ab); }
            if (!eqm(math::adjoint(R23 * R32), math::adjoint(R32) * math::adjoint(R23))) vf::fail("static_matrix.identity.adjoint_of_product.rectangular", key, ab);
        }
        M2 I = math::identity<M2>(), Z = math::zero<M2>();
        if (!eqm(I * A, A) || !eqm(A * I, A)) vf::fail("static_matrix.identity.unit", key, "A=" + sm(A));
        if (!eqm(Z * A, Z) || !eqm(A + Z, A)) vf::fail("static_matrix.identity.zero", key, "A=" + sm(A));
        if (math::is_zero(A) != (ia == 0x55)) vf::fail("static_matrix.is_zero", key, "A=" + sm(A));
        double fro = 0; for (int i = 0; i < 4; ++i) fro += A(i) * A(i);
        if (math::norm(A) != std::sqrt(fro)) vf::fail("static_matrix.norm", key, "A=" + sm(A));
        if (!eqm(math::constant<M2>(3.0), [] { M2 c; for (int i = 0; i < 4; ++i) c(i) = 3.0; return c; }())) vf::fail("static_matrix.constant", key, "");
    }
    vf::space("static_matrix<double,2,2>: all 256^2 pairs over entries {-1,0,1,2}: + - * unary- += -= *= scalar*, adjoint, rectangular products, inner product, norm, zero/identity/constant vs plain loops; complex 2x2 over {0,1,i,-1-i}");
    // identities over triples: quick = entries {-1,0,1} (81^3), thorough = all 256^3
    std::vector<int> set;
    for (int c = 0; c < 256; ++c) { bool has2 = false; int t = c; for (int i = 0; i < 4; ++i) { if (t % 4 == 3) has2 = true; t /= 4; } if (vf::thorough() || !has2) set.push_back(c); }
    for (int ia : set) for (int ib : set) {
        if (!vf::take([&]{ return std::string(vf::KS() << "alg3|" << ia << "|" << ib); })) continue;
        std::string key = vf::KS() << "alg3|" << ia << "|" << ib;
        M2 A = m2(ia), B = m2(ib), AB = A * B, ApB = A + B;
        vf::nontrivial(vf::hstr(key));
        for (int ic : set) {
            M2 C = m2(ic);
            bool ok1 = eqm(AB * C, A * (B * C)), ok2 = eqm(A * (B + C), AB + A * C), ok3 = eqm(ApB * C, A * C + B * C), ok4 = eqm(ApB + C, A + (B + C));
            if (!ok1) vf::fail("static_matrix.identity.associative_product", key, "A=" + sm(A) + " B=" + sm(B) + " C=" + sm(C));
            if (!ok2) vf::fail("static_matrix.identity.left_distributive", key, "A=" + sm(A) + " B=" + sm(B) + " C=" + sm(C));
            if (!ok3) vf::fail("static_matrix.identity.right_distributive", key, "A=" + sm(A) + " B=" + sm(B) + " C=" + sm(C));
            if (!ok4) vf::fail("static_matrix.identity.associative_plus", key, "A=" + sm(A) + " B=" + sm(B) + " C=" + sm(C));
        }
        vf::count("static_matrix_triples", (long long)set.size());
    }
    vf::space(vf::KS() << "static_matrix<double,2,2>: associativity / distributivity over all triples of " << set.size() << " matrices");
}

// ============================================================================ QR
static int content(int kind, int i, int j, int m, int n, bool imag) {
    switch (kind) {
        case 0: { int v = ((i * 7 + j * 3 + (imag ? 2 : 0)) % 11) - 5; if (i == j && !imag) v += 13; return v; }           // ramp with a heavy diagonal: full rank (certified below)
        case 1: return imag ? ((i + 2 * j) % 3) - 1 : ((i * (j + 1) + j) % 5) - 2;                                          // generic small integers
        case 2: { int jj = j % ((n + 1) / 2); return imag ? ((i + jj) % 3) - 1 : ((i * 5 + jj * 3) % 7) - 3; }                // repeated columns: rank deficient
        case 3: if (j % 2 == 1) return 0; return imag ? (i % 2) : ((i * 3 + j) % 5) - 2;                                      // zero columns
        case 4: { int ii = i % ((m + 1) / 2); return imag ? 0 : ((ii * 5 + j * 3) % 7) - 3; }                                 // repeated rows
        default: return (i == j && !imag) ? 2 : 0;                                                                           // scaled identity / trapezoid
    }
}
static const int NKIND = 6;

template <class T> struct qrt;
template <> struct qrt<double> { typedef Q F; static const bool cplx = false; static const char *name() { return "double"; } static CLD c(double x) { return CLD(x, 0); } static Q toF(double x) { return Q(x); } };
template <> struct qrt<std::complex<double>> { typedef QC F; static const bool cplx = true; static const char *name() { return "cdouble"; } static CLD c(std::complex<double> x) { return CLD(x.real(), x.imag()); } static QC toF(std::complex<double> x) { return QC(Q(x.real()), Q(x.imag())); } };
template <> struct qrt<float> { typedef Q F; static const bool cplx = false; static const char *name() { return "float"; } static CLD c(float x) { return CLD(x, 0); } static Q toF(float x) { return Q(x); } };

template <class F> static int rank_of(Mat<F> A) {
    int r = 0;
    for (int c = 0; c < A.n && r < A.m; ++c) {
        int p = -1; for (int i = r; i < A.m; ++i) if (!is0(A(i, c))) { p = i; break; }
        if (p < 0) continue;
        for (int j = 0; j < A.n; ++j) std::swap(A(p, j), A(r, j));
        for (int i = r + 1; i < A.m; ++i) if (!is0(A(i, c))) { F f = A(i, c) / A(r, c); for (int j = c; j < A.n; ++j) A(i, j) -= f * A(r, j); }
        ++r;
    }
    return r;
}
static LD sqrtQ(const Q &q) { return std::sqrt(q.convert_to<long double>()); }
static Q abs2(const Q &x) { return x * x; }
static Q abs2(const QC &x) { return x.re * x.re + x.im * x.im; }
static Q cj(const Q &x) { return x; }
static QC cj(const QC &x) { return conj(x); }

template <class T>
static void qr_case(int m, int n, int kind, int order) {
    typedef typename qrt<T>::F F;
    typedef typename math::scalar_of<T>::type S;
    const char *tn = qrt<T>::name();
    std::string key = vf::KS() << "qr|" << tn << "|" << m << "x" << n << "|" << kind << "|" << order;
    const LD u = (LD)std::numeric_limits<S>::epsilon() / 2 * (qrt<T>::cplx ? 5.66L : 1.0L);
    const LD cc = 10;                                   // the "small integer constant" in Higham's gamma-tilde
    auto gt = [&](int k) { return cc * k * u / (1 - cc * k * u); };
    const int p = std::min(m, n);
    const detail::storage_order ord = order ? detail::col_major : detail::row_major;
    auto idx = [&](int i, int j) { return order ? (i + j * m) : (i * n + j); };
    std::vector<T> A0(m * n); Mat<F> AF(m, n);
    for (int i = 0; i < m; ++i) for (int j = 0; j < n; ++j) {
        int re = content(kind, i, j, m, n, false), im = qrt<T>::cplx ? content(kind, i, j, m, n, true) : 0;
        A0[idx(i, j)] = fromint((T*)0, re, im); AF(i, j) = fromint((F*)0, re, im);
    }
    LD normA = 0; for (auto &a : A0) normA += std::norm(qrt<T>::c(a)); normA = std::sqrt(normA);
    int rank = rank_of(AF);
    vf::nontrivial(vf::hstr(key));
    vf::count(rank == p ? "qr_full_rank_cases" : "qr_rank_deficient_cases");
    std::string desc = vf::KS() << tn << " " << m << "x" << n << " content#" << kind << " rank " << rank << (order ? " col_major" : " row_major");
    // ---- factorize: on a fresh object (hist 0) and on an object that has factorized another matrix before
    //      (hist 1: same shape, other content; hist 2: a larger shape in the other storage order) -- the library
    //      reuses one QR object for all aggregates in tentative_prolongation
    for (int hist = 0; hist < 3; ++hist) {
        std::vector<T> A = A0;
        detail::QR<T> qr;
        if (hist) {
            int hm = hist == 1 ? m : m + 2, hn = hist == 1 ? n : n + 1;
            std::vector<T> H(hm * hn);
            for (int i = 0; i < hm; ++i) for (int j = 0; j < hn; ++j) H[(hist == 1 ? idx(i, j) : (order ? i * hn + j : i + j * hm))] = fromint((T*)0, content((kind + 1) % 6, i, j, hm, hn, false) + (i == j ? 3 : 0), qrt<T>::cplx ? content((kind + 2) % 6, i, j, hm, hn, true) : 0);
            qr.factorize(hm, hn, H.data(), hist == 1 ? ord : (order ? detail::row_major : detail::col_major));
            vf::count("qr_reuse_cases");
        }
        const std::string hs = hist ? ".reused_object" : "";
        qr.factorize(m, n, A.data(), ord);
        LD err = 0, orth = 0; bool tri = true, fin = true;
        for (int i = 0; i < m; ++i) for (int j = 0; j < n; ++j) {
            CLD s(0, 0); for (int k = 0; k < p; ++k) s += qrt<T>::c(qr.Q(i, k)) * qrt<T>::c(qr.R(k, j));
            CLD d = qrt<T>::c(A0[idx(i, j)]) - s; err += std::norm(d); fin &= std::isfinite((double)std::abs(s));
        }
        for (int a = 0; a < p; ++a) for (int b = 0; b < p; ++b) { CLD s(a == b ? -1 : 0, 0); for (int i = 0; i < m; ++i) s += std::conj(qrt<T>::c(qr.Q(i, a))) * qrt<T>::c(qr.Q(i, b)); orth += std::norm(s); }
        for (int i = 0; i < p; ++i) for (int j = 0; j < i; ++j) if (!(qr.R(i, j) == math::zero<T>())) tri = false;
        err = std::sqrt(err); orth = std::sqrt(orth);
        LD berr = (1 + std::sqrt((LD)n)) * gt(m * n) * normA * 1.01L, borth = 2.01L * std::sqrt((LD)n) * gt(m * n);
        if (!fin || !(err <= berr)) vf::fail(std::string("qr.factorization_A_eq_QR") + hs + "[" + tn + "]", key, vf::KS() << desc << ": ||A-QR||_F=" << (double)err << " bound " << (double)berr << " (||A||_F=" << (double)normA << ")");
        if (!(orth <= borth)) vf::fail(std::string("qr.Q_orthonormal") + hs + "[" + tn + "]", key, vf::KS() << desc << ": ||Q^H Q - I||_F=" << (double)orth << " bound " << (double)borth);
        if (!tri) vf::fail(std::string("qr.R_upper_triangular") + hs + "[" + tn + "]", key, desc);
    }
    // ---- solve (full rank only)
    if (rank == p) {
        std::vector<T> A = A0, b(m), x(n, fromint((T*)0, 77, 0));
        for (int i = 0; i < m; ++i) b[i] = fromint((T*)0, ((i * 5 + 1) % 7) - 3, qrt<T>::cplx ? ((i * 3) % 5) - 2 : 0);
        detail::QR<T> qr; qr.solve(m, n, A.data(), b.data(), x.data(), ord);
        LD nb = 0, nx = 0; for (auto &v : b) nb += std::norm(qrt<T>::c(v)); for (auto &v : x) nx += std::norm(qrt<T>::c(v)); nb = std::sqrt(nb); nx = std::sqrt(nx);
        std::vector<CLD> r(m); LD nr = 0;
        for (int i = 0; i < m; ++i) { CLD s = qrt<T>::c(b[i]); for (int j = 0; j < n; ++j) s -= qrt<T>::c(A0[idx(i, j)]) * qrt<T>::c(x[j]); r[i] = s; nr += std::norm(s); }
        nr = std::sqrt(nr);
        LD eps = gt(m * n);
        if (!std::isfinite((double)nx)) { vf::fail(std::string("qr.solve.finite[") + tn + "]", key, desc); return; }
        if (m >= n) {
            vf::count("qr_least_squares_solves");
            LD g = 0; for (int j = 0; j < n; ++j) { CLD s(0, 0); for (int i = 0; i < m; ++i) s += std::conj(qrt<T>::c(A0[idx(i, j)])) * r[i]; g += std::norm(s); } g = std::sqrt(g);
            LD bound = 1.01L * eps * normA * (nr + nb + normA * nx);
            if (!(g <= bound)) vf::fail(std::string("qr.solve.least_squares[") + tn + "]", key, vf::KS() << desc << ": ||A^H (b - A x)||=" << (double)g << " bound " << (double)bound << " (||r||=" << (double)nr << " ||x||=" << (double)nx << ")");
        } else {
            vf::count("qr_minimum_norm_solves");
            LD bound = 1.01L * eps * (normA * nx + nb);
            if (!(nr <= bound)) vf::fail(std::string("qr.solve.minimum_norm.residual[") + tn + "]", key, vf::KS() << desc << ": ||b - A x||=" << (double)nr << " bound " << (double)bound);
            // exact projection of x on null(A): x - A^H (A A^H)^{-1} A x, in rationals
            Mat<F> xf(n, 1); for (int j = 0; j < n; ++j) xf(j, 0) = qrt<T>::toF(x[j]);
            Mat<F> AH(n, m); for (int i = 0; i < m; ++i) for (int j = 0; j < n; ++j) AH(j, i) = cj(AF(i, j));
            Mat<F> G = mul(AF, AH), Ax = mul(AF, xf), w;
            if (!gj_solve(G, Ax, w)) { vf::fail("harness.qr.gram_singular", key, desc); return; }
            Mat<F> px = mul(AH, w); Q pn(0), xn(0);
            for (int j = 0; j < n; ++j) { pn += abs2(F(xf(j, 0) - px(j, 0))); xn += abs2(xf(j, 0)); }
            // sigma_min(A)^2 >= 1 / trace((A A^H)^{-1})  (exact, rational)
            Mat<F> Ginv; gj_solve(G, eye<F>(m), Ginv);
            LD trinv = 0; for (int i = 0; i < m; ++i) { F d = Ginv(i, i); trinv += sqrtQ(abs2(d)); }
            LD smin = 1 / std::sqrt(trinv);
            LD nbound = 1.01L * eps * normA * nx / (smin - eps * normA);
            if (!(smin > eps * normA) || !(sqrtQ(pn) <= nbound)) vf::fail(std::string("qr.solve.minimum_norm.nullspace_component[") + tn + "]", key, vf::KS() << desc << ": ||P_null(A) x||=" << (double)sqrtQ(pn) << " bound " << (double)nbound << " (sigma_min>=" << (double)smin << ")");
        }
    }
}

// 2x2 block values: QR specialisation for static matrices works on the unrolled scalar matrix
static void qr_block_case(int m, int n, int kind, int order) {
    typedef static_matrix<double, 2, 2> B; typedef static_matrix<double, 2, 1> R;
    std::string key = vf::KS() << "qrb|block2|" << m << "x" << n << "|" << kind << "|" << order;
    const LD u = 0x1p-53L; const int M = 2 * m, N = 2 * n, p = std::min(M, N);
    auto gt = [&](int k) { return 10.0L * k * u / (1 - 10.0L * k * u); };
    const detail::storage_order ord = order ? detail::col_major : detail::row_major;
    auto idx = [&](int i, int j) { return order ? (i + j * m) : (i * n + j); };
    std::vector<B> A0(m * n); std::vector<LD> As(M * N); Mat<Q> AF(M, N);
    for (int i = 0; i < M; ++i) for (int j = 0; j < N; ++j) { int v = content(kind, i, j, M, N, false); A0[idx(i / 2, j / 2)](i % 2, j % 2) = v; As[i * N + j] = v; AF(i, j) = Q(v); }
    LD normA = 0; for (LD v : As) normA += v * v; normA = std::sqrt(normA);
    int rank = rank_of(AF);
    vf::nontrivial(vf::hstr(key));
    std::string desc = vf::KS() << "block2 " << m << "x" << n << " blocks content#" << kind << " rank " << rank << (order ? " col_major" : " row_major");
    {
        std::vector<B> A = A0; detail::QR<B> qr; qr.factorize(m, n, A.data(), ord);
        // unrolled Q (M x N) and R (p x N); block accessor R(i,j) is defined for block rows < min(m,n)
        std::vector<LD> Qs(M * N), Rs(M * N, 0);
        for (int i = 0; i < m; ++i) for (int j = 0; j < n; ++j) { B q = qr.Q(i, j); for (int a = 0; a < 2; ++a) for (int b = 0; b < 2; ++b) Qs[(2 * i + a) * N + 2 * j + b] = q(a, b); }
        for (int i = 0; i < std::min(m, n); ++i) for (int j = 0; j < n; ++j) { B r = qr.R(i, j); for (int a = 0; a < 2; ++a) for (int b = 0; b < 2; ++b) Rs[(2 * i + a) * N + 2 * j + b] = r(a, b); }
        LD err = 0, orth = 0; bool tri = true;
        for (int i = 0; i < M; ++i) for (int j = 0; j < N; ++j) { LD s = 0; for (int k = 0; k < p; ++k) s += Qs[i * N + k] * Rs[k * N + j]; err += (As[i * N + j] - s) * (As[i * N + j] - s); }
        for (int a = 0; a < p; ++a) for (int b = 0; b < p; ++b) { LD s = (a == b ? -1 : 0); for (int i = 0; i < M; ++i) s += Qs[i * N + a] * Qs[i * N + b]; orth += s * s; }
        for (int i = 0; i < p; ++i) for (int j = 0; j < i; ++j) if (Rs[i * N + j] != 0) tri = false;
        err = std::sqrt(err); orth = std::sqrt(orth);
        LD berr = (1 + std::sqrt((LD)N)) * gt(M * N) * normA * 1.01L, borth = 2.01L * std::sqrt((LD)N) * gt(M * N);
        if (!(err <= berr)) vf::fail("qr.factorization_A_eq_QR[block2]", key, vf::KS() << desc << ": ||A-QR||_F=" << (double)err << " bound " << (double)berr);
        if (!(orth <= borth)) vf::fail("qr.Q_orthonormal[block2]", key, vf::KS() << desc << ": ||Q^T Q - I||_F=" << (double)orth << " bound " << (double)borth);
        if (!tri) vf::fail("qr.R_upper_triangular[block2]", key, desc + ": unrolled R has a non-zero below the diagonal");
    }
    if (rank == p && m >= n) {
        std::vector<B> A = A0; std::vector<R> b(m), x(n);
        for (int i = 0; i < M; ++i) b[i / 2](i % 2) = ((i * 5 + 1) % 7) - 3;
        detail::QR<B> qr; qr.solve(m, n, A.data(), b.data(), x.data(), ord);
        LD nb = 0, nx = 0, nr = 0, g = 0; std::vector<LD> r(M);
        for (int i = 0; i < M; ++i) { LD s = b[i / 2](i % 2); nb += s * s; for (int j = 0; j < N; ++j) s -= As[i * N + j] * (LD)x[j / 2](j % 2); r[i] = s; nr += s * s; }
        for (int j = 0; j < N; ++j) { nx += (LD)x[j / 2](j % 2) * x[j / 2](j % 2); LD s = 0; for (int i = 0; i < M; ++i) s += As[i * N + j] * r[i]; g += s * s; }
        nb = std::sqrt(nb); nx = std::sqrt(nx); nr = std::sqrt(nr); g = std::sqrt(g);
        LD bound = 1.01L * gt(M * N) * normA * (nr + nb + normA * nx);
        vf::count("qr_block_least_squares_solves");
        if (!(g <= bound)) vf::fail("qr.solve.least_squares[block2]", key, vf::KS() << desc << ": ||A^T (b - A x)||=" << (double)g << " bound " << (double)bound);
    }
}

static void run_qr() {
    for (int m = 1; m <= 12; ++m) for (int n = 1; n <= 12; ++n) for (int kind = 0; kind < NKIND; ++kind) for (int order = 0; order < 2; ++order) {
        if (vf::take([&]{ return std::string(vf::KS() << "qr|double|" << m << "x" << n << "|" << kind << "|" << order); })) qr_case<double>(m, n, kind, order);
        if (vf::take([&]{ return std::string(vf::KS() << "qr|cdouble|" << m << "x" << n << "|" << kind << "|" << order); })) qr_case<std::complex<double>>(m, n, kind, order);
        if (vf::take([&]{ return std::string(vf::KS() << "qr|float|" << m << "x" << n << "|" << kind << "|" << order); })) qr_case<float>(m, n, kind, order);
    }
    vf::space("QR double/complex<double>/float: every shape 1..12 x 1..12 x 6 integer contents (full rank, generic, repeated columns, zero columns, repeated rows, trapezoidal identity) x row/col major: factorize + solve (full rank)");
}
static void run_qr_block() {
    for (int m = 1; m <= 6; ++m) for (int n = 1; n <= 6; ++n) for (int kind = 0; kind < NKIND; ++kind) for (int order = 0; order < 2; ++order)
        if (vf::take([&]{ return std::string(vf::KS() << "qrb|block2|" << m << "x" << n << "|" << kind << "|" << order); })) qr_block_case(m, n, kind, order);
    vf::space("QR static_matrix<double,2,2>: every block shape 1..6 x 1..6 (scalar 2..12) x 6 contents x row/col major");
}

int main(int argc, char **argv) {
    vf::init(argc, argv, "C16");
    vf::sample_str("inverse case: rational 3x3 [[1,-1,0],[0,1,1],[1,0,1]] (det 0 -> skipped) vs [[1,-1,0],[0,1,1],[1,0,-1]]: A*inv(A) == I exactly");
    vf::sample_str("QR case: double 5x12 col_major, content#1 ((i*(j+1)+j)%5-2), full row rank: A = Q[:, :5] R[:5, :], minimum-norm solve");
    if (vf::section("inv")) {
        std::vector<std::pair<int,int>> r5 = {{-2,0},{-1,0},{0,0},{1,0},{2,0}}, r3 = {{-1,0},{0,0},{1,0}}, r2 = {{0,0},{1,0}};
        std::vector<std::pair<int,int>> g5 = {{0,0},{1,0},{0,1},{-1,0},{1,-1}}, g3 = {{0,0},{1,0},{0,1}};
        inverse_space<Q, 2>("rational", r5, "{-2..2}");
        inverse_space<Q, 3>("rational", r3, "{-1,0,1}");
        inverse_space<double, 2>("double", r5, "{-2..2}");
        inverse_space<double, 3>("double", r3, "{-1,0,1}");
        inverse_space<QC, 2>("gaussian_rational", g5, "{0,1,i,-1,1-i}");
        inverse_space<std::complex<double>, 2>("cdouble", g5, "{0,1,i,-1,1-i}");
        inverse_space<Q, 4>("rational", r2, "{0,1}");
        inverse_space<double, 4>("double", r2, "{0,1}");
        if (vf::thorough()) { inverse_space<QC, 3>("gaussian_rational", g3, "{0,1,i}"); inverse_space<std::complex<double>, 3>("cdouble", g3, "{0,1,i}"); }
    }
    if (vf::section("alg2") || vf::section("alg3")) run_algebra();
    if (vf::section("qr")) run_qr();
    if (vf::section("qrb")) run_qr_block();
    return vf::finish();
}
