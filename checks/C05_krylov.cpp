// C05 -- each Krylov method produces its defining iterates.
//
// Every case = (system, preconditioner, x0, rhs).  Systems: ALL sparsity patterns n <= 4 with a stored,
// strictly dominant diagonal under four value rules (SPD, nonsymmetric, complex Hermitian, complex shifted)
// plus structured systems n = 6..10.  The real amgcl solvers are driven through
//      amgcl::make_solver< dense_precond<Backend>, amgcl::runtime::solver::wrapper<Backend> >
// (solver parameters through boost::property_tree) with maxiter = k, tol = 0, for every k up to the point
// where the exact-arithmetic method has converged, and compared with references evaluated in long double:
//   iterate.*    x_k == textbook recurrence (CG, BiCGStab) / Krylov least-squares minimiser (GMRES both sides, FGMRES),
//                Richardson x + w B (f - A x) repeated k times
//   optimal.*    CG: A-norm error == Galerkin minimum over x0 + K_k(BA, B r0);  GMRES/FGMRES/LGMRES(first cycle):
//                residual norm == least-squares minimum over the (preconditioned) Krylov space
//   monotone.*   reported residual of GMRES/FGMRES/LGMRES(first cycle) is non-increasing in k
//   itercount.*  the returned iteration count equals k
//   terminate.*  default tol/maxiter, identity or exact preconditioner: iters <= n (+ n/s for IDR(s)), true residual <= tol
// Bounds are derived per case from measured quantities (kappa_2 of A and B from a dense SVD, the reciprocal
// cosines of every quotient the recurrence forms); cases whose bound exceeds 1e-6 are skipped by rule and counted.
#include <complex>
#include <tuple>
#include <boost/property_tree/ptree.hpp>
#include <amgcl/backend/builtin.hpp>
#include <amgcl/value_type/complex.hpp>
#include <amgcl/adapter/crs_tuple.hpp>
#include <amgcl/make_solver.hpp>
#include <amgcl/solver/runtime.hpp>
#include "vf.hpp"
#include "C01_common.hpp"

typedef long double ld;
typedef std::complex<long double> cld;
typedef std::complex<double> cplx;
using sg::ld_of;

static const double U = 1.1102230246251565e-16;     // unit round-off of double

// ---------------------------------------------------------------------------------------------
// dense long-double linear algebra
inline ld cj(ld x) { return x; }
inline cld cj(const cld &x) { return std::conj(x); }
inline ld ab(ld x) { return fabsl(x); }
inline ld ab(const cld &x) { return std::abs(x); }
template <class L> using Vec = std::vector<L>;
template <class L> struct DM {
    int n = 0; std::vector<L> a;
    DM() {} explicit DM(int n) : n(n), a((size_t)n * n, L(0)) {}
    L &operator()(int i, int j) { return a[(size_t)i * n + j]; }
    const L &operator()(int i, int j) const { return a[(size_t)i * n + j]; }
};
template <class L> L herm(const Vec<L> &u, const Vec<L> &v) { L s = 0; for (size_t i = 0; i < u.size(); ++i) s += cj(u[i]) * v[i]; return s; }   // u^H v
template <class L> ld nrm(const Vec<L> &v) { ld s = 0; for (auto &x : v) s += ab(x) * ab(x); return sqrtl(s); }
template <class L> Vec<L> mv(const DM<L> &M, const Vec<L> &x) { Vec<L> y(M.n, L(0)); for (int i = 0; i < M.n; ++i) { L s = 0; for (int j = 0; j < M.n; ++j) s += M(i, j) * x[j]; y[i] = s; } return y; }
template <class L> DM<L> mm(const DM<L> &A, const DM<L> &B) { DM<L> C(A.n); for (int i = 0; i < A.n; ++i) for (int j = 0; j < A.n; ++j) { L s = 0; for (int k = 0; k < A.n; ++k) s += A(i, k) * B(k, j); C(i, j) = s; } return C; }
template <class L> Vec<L> axpy(const Vec<L> &x, L a, const Vec<L> &y) { Vec<L> r(x); for (size_t i = 0; i < r.size(); ++i) r[i] += a * y[i]; return r; }   // x + a y
template <class L> Vec<L> vsub(const Vec<L> &x, const Vec<L> &y) { Vec<L> r(x); for (size_t i = 0; i < r.size(); ++i) r[i] -= y[i]; return r; }
// Gaussian elimination with partial pivoting on an m x m system given row-major; returns false if singular to working precision
template <class L> bool gsolve(std::vector<L> M, int m, Vec<L> b, Vec<L> &x) {
    for (int c = 0; c < m; ++c) {
        int p = c; for (int r = c + 1; r < m; ++r) if (ab(M[r * m + c]) > ab(M[p * m + c])) p = r;
        if (ab(M[p * m + c]) == 0) return false;
        if (p != c) { for (int j = 0; j < m; ++j) std::swap(M[p * m + j], M[c * m + j]); std::swap(b[p], b[c]); }
        for (int r = c + 1; r < m; ++r) { L f = M[r * m + c] / M[c * m + c]; if (f == L(0)) continue; for (int j = c; j < m; ++j) M[r * m + j] -= f * M[c * m + j]; b[r] -= f * b[c]; }
    }
    x.assign(m, L(0));
    for (int r = m; r-- > 0;) { L s = b[r]; for (int j = r + 1; j < m; ++j) s -= M[r * m + j] * x[j]; x[r] = s / M[r * m + r]; }
    return true;
}
template <class L> DM<L> inverse(const DM<L> &A) {
    DM<L> X(A.n);
    for (int c = 0; c < A.n; ++c) { Vec<L> e(A.n, L(0)), x; e[c] = 1; gsolve(A.a, A.n, e, x); for (int r = 0; r < A.n; ++r) X(r, c) = x[r]; }
    return X;
}

// ---------------------------------------------------------------------------------------------
// the preconditioner handed to amgcl: a fixed dense matrix B (identity / rounded inverse / Jacobi)
template <class Backend>
struct dense_precond {
    typedef Backend backend_type;
    typedef typename Backend::matrix matrix;
    typedef typename Backend::vector vector;
    typedef typename Backend::value_type value_type;
    typedef typename Backend::col_type col_type;
    typedef typename Backend::ptr_type ptr_type;
    typedef typename amgcl::backend::builtin<value_type, col_type, ptr_type>::matrix build_matrix;
    typedef typename Backend::params backend_params;
    struct params {
        const std::vector<value_type> *B = nullptr;
        params() {}
        params(const boost::property_tree::ptree &) {}
        void get(boost::property_tree::ptree &, const std::string &) const {}
    } prm;
    template <class Matrix>
    dense_precond(const Matrix &M, const params &p = params(), const backend_params &bprm = backend_params())
        : prm(p), A(Backend::copy_matrix(std::make_shared<build_matrix>(M), bprm)) {}
    template <class V1, class V2> void apply(const V1 &rhs, V2 &&x) const {
        size_t n = amgcl::backend::rows(*A);
        std::vector<value_type> t(n);
        for (size_t i = 0; i < n; ++i) { value_type s = value_type(); for (size_t j = 0; j < n; ++j) s += (*prm.B)[i * n + j] * rhs[j]; t[i] = s; }
        for (size_t i = 0; i < n; ++i) x[i] = t[i];
    }
    std::shared_ptr<matrix> system_matrix_ptr() const { return A; }
    const matrix &system_matrix() const { return *A; }
    size_t bytes() const { return 0; }
    friend std::ostream &operator<<(std::ostream &os, const dense_precond &) { return os << "dense test preconditioner\n"; }
    std::shared_ptr<matrix> A;
};

// ---------------------------------------------------------------------------------------------
template <class V>
struct Case {
    typedef typename ld_of<V>::type L;
    int n;
    sg::Crs<V> A;               // what amgcl sees
    std::vector<V> Bd;          // dense preconditioner in working precision (row-major), what amgcl applies
    std::vector<V> f, x0;
    DM<L> Al, Bl;               // the same data in long double
    Vec<L> fl, x0l, xstar;
    double kA, kB, nA, nB;      // kappa_2 and ||.||_2 of A and B
    std::string descr;
};

struct Run { bool threw = false; std::string what; size_t iters = 0; double resid = 0; };

template <class V>
Run run_amgcl(const Case<V> &c, const boost::property_tree::ptree &sp, std::vector<V> &x) {
    typedef amgcl::backend::builtin<V> Backend;
    typedef amgcl::make_solver<dense_precond<Backend>, amgcl::runtime::solver::wrapper<Backend>> Solver;
    Run r;
    x = c.x0;
    try {
        typename Solver::params prm;
        prm.precond.B = &c.Bd;
        prm.solver = sp;
        Solver S(std::tie(c.n, c.A.ptr, c.A.col, c.A.val), prm);
        std::tie(r.iters, r.resid) = S(c.f, x);
    } catch (const std::exception &e) { r.threw = true; r.what = e.what(); }
    return r;
}

template <class V> Vec<typename ld_of<V>::type> up(const std::vector<V> &x) { typedef typename ld_of<V>::type L; Vec<L> r(x.size()); for (size_t i = 0; i < x.size(); ++i) r[i] = (L)x[i]; return r; }

// ---------------------------------------------------------------------------------------------
// References.  Each returns the iterates x_0..x_K, a growth factor per iterate (product of the reciprocal
// cosines of all quotients formed so far, each >= 1) and stops ("kref") when the method has converged
// (residual <= 1e-10 of the initial one: the next step is 0/0 in exact arithmetic) or broke down.
template <class L> struct Iterates { std::vector<Vec<L>> x; std::vector<ld> growth; bool breakdown = false; };
static const ld CONV = 1e-10L;
inline ld rc(ld na, ld nb, ld q) { return q > 0 ? std::max((ld)1, na * nb / q) : INFINITY; }   // reciprocal cosine

// textbook preconditioned CG (Barrett et al.): alpha = (r,z)/(p,Ap), beta = (r',z')/(r,z)
template <class L>
Iterates<L> ref_cg(const DM<L> &A, const DM<L> &B, const Vec<L> &f, const Vec<L> &x0, int K) {
    Iterates<L> R; Vec<L> x = x0, r = vsub(f, mv(A, x)), p, z; L rho_old = 0; ld g = 1, r0 = nrm(r);
    R.x.push_back(x); R.growth.push_back(g);
    for (int k = 0; k < K; ++k) {
        if (nrm(r) <= CONV * r0) break;
        z = mv(B, r);
        L rho = herm(r, z);
        g *= rc(nrm(r), nrm(z), ab(rho));
        if (k == 0) p = z; else p = axpy(z, rho / rho_old, p);
        Vec<L> q = mv(A, p);
        L pq = herm(p, q);
        g *= rc(nrm(p), nrm(q), ab(pq));
        if (!(g < 1e30L)) { R.breakdown = true; break; }
        L alpha = rho / pq;
        x = axpy(x, alpha, p); r = axpy(r, -alpha, q); rho_old = rho;
        R.x.push_back(x); R.growth.push_back(g);
    }
    return R;
}

// Galerkin definition of the CG iterate: x_k = x0 + argmin_{z in K_k(BA, B r0)} ||x* - x0 - z||_A
template <class L>
bool cg_galerkin(const DM<L> &A, const DM<L> &B, const Vec<L> &f, const Vec<L> &x0, int k, Vec<L> &xk) {
    int n = A.n; Vec<L> r0 = vsub(f, mv(A, x0)); xk = x0; if (k == 0) return true;
    DM<L> BA = mm(B, A);
    std::vector<Vec<L>> Q;                                   // orthonormal basis of the Krylov space (MGS twice)
    Vec<L> w = mv(B, r0);
    for (int j = 0; j < k; ++j) {
        ld w0 = nrm(w);
        for (int pass = 0; pass < 2; ++pass) for (auto &q : Q) w = axpy(w, -herm(q, w), q);
        ld h = nrm(w); if (!(h > 1e-15L * w0) || h == 0) return false;                      // space became invariant
        for (auto &e : w) e /= h; Q.push_back(w); w = mv(BA, w);
    }
    std::vector<L> G((size_t)k * k); Vec<L> b(k), y;
    for (int i = 0; i < k; ++i) { Vec<L> Aq; b[i] = herm(Q[i], r0); for (int j = 0; j < k; ++j) { Aq = mv(A, Q[j]); G[i * k + j] = herm(Q[i], Aq); } }
    if (!gsolve(G, k, b, y)) return false;
    for (int j = 0; j < k; ++j) xk = axpy(xk, y[j], Q[j]);
    (void)n; return true;
}

// textbook BiCGStab (van der Vorst) on  Op y = c,  y0 = 0, shadow residual = c.
//   left  preconditioning: Op = B A, c = B (f - A x0), x_k = x0 + y_k
//   right preconditioning: Op = A B, c = f - A x0,     x_k = x0 + B y_k
template <class L>
Iterates<L> ref_bicgstab(const DM<L> &Op, const Vec<L> &c, int K) {
    Iterates<L> R; int n = Op.n; Vec<L> y(n, L(0)), r = c, rt = c, p, v(n, L(0)); L rho_old = 1, alpha = 1, omega = 1; ld g = 1, r0 = nrm(c);
    R.x.push_back(y); R.growth.push_back(g);
    for (int k = 0; k < K; ++k) {
        if (nrm(r) <= CONV * r0) break;
        L rho = herm(rt, r);
        g *= rc(nrm(rt), nrm(r), ab(rho));
        if (k == 0) p = r; else { L beta = (rho / rho_old) * (alpha / omega); p = axpy(r, beta, axpy(p, -omega, v)); }
        v = mv(Op, p);
        L rv = herm(rt, v);
        g *= rc(nrm(rt), nrm(v), ab(rv));
        if (!(g < 1e30L)) { R.breakdown = true; break; }
        alpha = rho / rv;
        Vec<L> s = axpy(r, -alpha, v);
        if (nrm(s) <= CONV * r0) {                                     // converged in the half step (the regular way BiCGStab ends: s_n = Q_{n-1}(A) r_n^BiCG = 0):
            y = axpy(y, alpha, p); R.x.push_back(y); R.growth.push_back(g); break;       // x = x + alpha p, stop (omega would be 0/0)
        }
        Vec<L> t = mv(Op, s);
        L ts = herm(t, s);
        g *= rc(nrm(t), nrm(s), ab(ts));
        if (!(g < 1e30L)) { R.breakdown = true; break; }
        omega = ts / herm(t, t);
        y = axpy(axpy(y, alpha, p), omega, s);
        r = axpy(s, -omega, t); rho_old = rho;
        R.x.push_back(y); R.growth.push_back(g);
    }
    return R;
}

// Plain BiCG on Op y = c (shadow residual = c), only to measure where the Lanczos process underlying BiCGStab,
// BiCGStab(L) breaks down: returns the number of steps to convergence (-1: breakdown / not within K) and the
// product of the reciprocal cosines of rho_j = (rt_j, r_j) and sigma_j = (pt_j, Op p_j).
template <class L>
int ref_bicg_growth(const DM<L> &Op, const Vec<L> &c, int K, ld &g) {
    int n = Op.n; DM<L> OpH(n); for (int i = 0; i < n; ++i) for (int j = 0; j < n; ++j) OpH(i, j) = cj(Op(j, i));
    Vec<L> r = c, rt = c, p = c, pt = c; g = 1; ld r0 = nrm(c);
    for (int k = 0; k <= K; ++k) {
        if (nrm(r) <= CONV * r0) return k;
        if (k == K) break;
        if (nrm(rt) <= CONV * r0) return -1;                // the shadow sequence ended first (rho = 0 with r != 0): breakdown
        L rho = herm(rt, r);
        g *= rc(nrm(rt), nrm(r), ab(rho));
        Vec<L> q = mv(Op, p);
        L sigma = herm(pt, q);
        g *= rc(nrm(pt), nrm(q), ab(sigma));
        if (!(g < 1e30L)) return -1;
        L alpha = rho / sigma;
        r = axpy(r, -alpha, q);
        rt = axpy(rt, -cj(alpha), mv(OpH, pt));
        L beta = herm(rt, r) / rho;
        p = axpy(r, beta, p); pt = axpy(rt, cj(beta), pt);
    }
    return -1;
}

// One GMRES cycle on Op y = c from y = 0: y_j = argmin_{y in K_j(Op,c)} ||c - Op y||, j = 1..m, by dense least squares
// (normal equations in long double on an orthonormal Krylov basis).  growth_j = prod of ||Op q_i|| / h_{i+1,i} over the
// basis vectors used.  Stops when the Krylov space becomes invariant (then the last iterate is the solution).
template <class L>
void gmres_cycle(const DM<L> &Op, const Vec<L> &c, int m, std::vector<Vec<L>> &ys, std::vector<ld> &growth) {
    ys.clear(); growth.clear();
    ld beta = nrm(c); if (beta == 0) return;
    std::vector<Vec<L>> Q, W; Vec<L> q = c; for (auto &e : q) e /= beta;
    ld g = 1;
    for (int j = 1; j <= m; ++j) {
        Q.push_back(q); W.push_back(mv(Op, q));
        std::vector<L> G((size_t)j * j); Vec<L> b(j), y;
        for (int a = 0; a < j; ++a) { b[a] = herm(W[a], c); for (int bb = 0; bb < j; ++bb) G[a * j + bb] = herm(W[a], W[bb]); }
        if (!gsolve(G, j, b, y)) return;
        Vec<L> yy(Op.n, L(0)); for (int a = 0; a < j; ++a) yy = axpy(yy, y[a], Q[a]);
        ys.push_back(yy); growth.push_back(g);
        // next basis vector
        Vec<L> w = W.back(); ld w0 = nrm(w);
        for (int pass = 0; pass < 2; ++pass) for (auto &e : Q) w = axpy(w, -herm(e, w), e);
        ld h = nrm(w);
        if (!(h > 1e-13L * w0)) return;                     // invariant subspace: converged
        g *= std::max((ld)1, w0 / h);
        for (auto &e : w) e /= h; q = w;
    }
}

// restarted GMRES(M) iterates x_0..x_K.  side: 0 left, 1 right (FGMRES with a fixed preconditioner == right).
template <class L>
Iterates<L> ref_gmres(const DM<L> &A, const DM<L> &B, const Vec<L> &f, const Vec<L> &x0, int M, int side, int K) {
    Iterates<L> R; Vec<L> x = x0; ld g = 1;
    DM<L> Op = side == 0 ? mm(B, A) : mm(A, B);
    Vec<L> c0 = vsub(f, mv(A, x0)); if (side == 0) c0 = mv(B, c0);
    ld r0 = nrm(c0);
    R.x.push_back(x); R.growth.push_back(g);
    int k = 0;
    while (k < K) {
        Vec<L> c = vsub(f, mv(A, x)); if (side == 0) c = mv(B, c);
        if (nrm(c) <= CONV * r0) break;
        std::vector<Vec<L>> ys; std::vector<ld> gr;
        int m = std::min(M, K - k);
        gmres_cycle(Op, c, m, ys, gr);
        if (ys.empty()) break;
        for (size_t j = 0; j < ys.size(); ++j) {
            Vec<L> dx = side == 0 ? ys[j] : mv(B, ys[j]);
            R.x.push_back(axpy(x, L(1), dx)); R.growth.push_back(g * gr[j]);
        }
        k += (int)ys.size();
        x = R.x.back(); g = R.growth.back();
        if ((int)ys.size() < m) break;                      // invariant subspace reached inside the cycle
    }
    return R;
}

template <class L>
Iterates<L> ref_richardson(const DM<L> &A, const DM<L> &B, const Vec<L> &f, const Vec<L> &x0, ld damping, ld step, int K) {
    // step = max(1, ||I - w B A||_2): an error in x_k is carried into x_{k+1} multiplied by at most that
    Iterates<L> R; Vec<L> x = x0; R.x.push_back(x); R.growth.push_back(1); ld g = 1;
    ld r0 = nrm(vsub(f, mv(A, x)));
    for (int k = 0; k < K; ++k) {
        Vec<L> r = vsub(f, mv(A, x));
        if (nrm(r) <= CONV * r0 || nrm(r) > 1e6L * r0) break;
        x = axpy(x, (L)damping, mv(B, r)); g *= step;
        R.x.push_back(x); R.growth.push_back(g);
    }
    return R;
}


// ---------------------------------------------------------------------------------------------
template <class V> std::vector<V> down(const Vec<typename ld_of<V>::type> &x) { std::vector<V> r(x.size()); for (size_t i = 0; i < x.size(); ++i) r[i] = (V)x[i]; return r; }

template <class V> struct Ctx {
    const Case<V> &c; const std::string &key;
    ld xscale;          // max(||x*||, ||x0||)
    ld fn;              // ||f||
};

// forward-error bound for the k-th iterate: 64 u (k+1) n kappa(A) kappa(B) growth max(||x*||,||x0||,||x_k||)
template <class V> ld xbound(const Ctx<V> &C, int k, ld growth, ld xnorm) {
    return 64 * (ld)U * (k + 1) * C.c.n * C.c.kA * C.c.kB * growth * std::max(C.xscale, xnorm);
}
static const ld MAXREL = 1e-6L;      // a case whose derived relative bound exceeds this is skipped by rule
static long g_compared_k1 = 0;       // iterates with k >= 1 compared in the current case (non-triviality rule)

static boost::property_tree::ptree sp(const char *type) {
    boost::property_tree::ptree p; p.put("type", type); p.put("tol", 0.0); return p;
}

template <class V> std::string dump(const Case<V> &c) {
    return c.descr + " A=" + sg::show(c.A) + " f=" + sg::showv(c.f) + " x0=" + sg::showv(c.x0);
}

struct Opts {
    bool iterate = false;       // compare x_k with the reference iterate
    bool optres = false;        // residual norm (preconditioned when side==0) equals the reference minimum
    bool monotone = false;      // reported residual non-increasing in k
    bool energy = false;        // CG: A-norm of the error equals the Galerkin minimum
    int side = 1;               // 0 left, 1 right / none
};

// Runs the real solver for k = 0..(#reference iterates - 1) and applies the selected sub-checks.
template <class V>
void check_method(const Ctx<V> &C, const std::string &sub, const std::string &cfg, const boost::property_tree::ptree &base,
                  const Iterates<typename ld_of<V>::type> &R, const Opts &o) {
    typedef typename ld_of<V>::type L;
    const Case<V> &c = C.c;
    ld opnorm = (ld)c.nA * c.nB;
    double prev_resid = 0; ld prev_bnd = 0; bool have_prev = false;
    for (int k = 0; k < (int)R.x.size(); ++k) {
        ld xn = nrm(R.x[k]);
        ld bnd = xbound(C, k, R.growth[k], xn);
        if (!(bnd <= MAXREL * std::max(C.xscale, xn))) { vf::count("skipped_illconditioned_recurrence." + sub); break; }
        boost::property_tree::ptree p = base; p.put("maxiter", k);
        std::vector<V> x; Run r = run_amgcl(c, p, x);
        vf::count("solves");
        if (r.threw) { vf::fail("exception." + sub, C.key, cfg + " k=" + std::to_string(k) + " threw " + r.what + " :: " + dump(c)); return; }
        if ((int)r.iters != k) {
            vf::fail("itercount." + sub, C.key, vf::KS() << cfg << " maxiter=" << k << " returned iters=" << r.iters << " (reference converges at step " << R.x.size() - 1 << ") :: " << dump(c));
            return;
        }
        Vec<L> xl = up(x);
        if (o.iterate) {
            ld err = nrm(vsub(xl, R.x[k]));
            if (!(err <= bnd)) {
                vf::fail("iterate." + sub, C.key, vf::KS() << cfg << " k=" << k << " ||x_k - x_k^ref||=" << (double)err << " bound=" << (double)bnd << " growth=" << (double)R.growth[k]
                         << " got=" << sg::showv(x) << " ref=" << sg::showv(down<V>(R.x[k])) << " :: " << dump(c));
                return;
            }
            vf::count("iterates_compared." + sub);
            { ld q = bnd > 0 ? err / bnd : 0; vf::count(q <= 1e-4L ? "margin.err_over_bound_le_1e-4" : q <= 1e-2L ? "margin.err_over_bound_le_1e-2" : q <= 1e-1L ? "margin.err_over_bound_le_1e-1" : "margin.err_over_bound_le_1"); }
            if (k >= 1) ++g_compared_k1;
            if (k >= 2) vf::count("iterates_compared_k_ge_2." + sub);
        }
        if (o.optres || o.monotone) {
            auto res = [&](const Vec<L> &y) { Vec<L> rr = vsub(c.fl, mv(c.Al, y)); if (o.side == 0) rr = mv(c.Bl, rr); return nrm(rr); };
            ld rg = res(xl), rm = res(R.x[k]);
            if (o.optres) {
                if (!(rg <= rm + opnorm * bnd)) {
                    vf::fail("optimal." + sub, C.key, vf::KS() << cfg << " k=" << k << " residual " << (double)rg << " > least-squares minimum over the Krylov space " << (double)rm << " + " << (double)(opnorm * bnd)
                             << " got=" << sg::showv(x) << " minimiser=" << sg::showv(down<V>(R.x[k])) << " :: " << dump(c));
                    return;
                }
                vf::count("optimality_checked." + sub);
            }
            if (o.monotone) {
                // reported value must itself be the (preconditioned) residual over ||f|| -- that is C01's subject; here only monotonicity
                if (have_prev) {
                    ld slack = opnorm * (bnd + prev_bnd) / C.fn + 8 * (c.n + 2) * (ld)U * prev_resid;
                    if (!((ld)r.resid <= (ld)prev_resid + slack)) {
                        vf::fail("monotone." + sub, C.key, vf::KS() << cfg << " reported residual rose from " << prev_resid << " (k=" << k - 1 << ") to " << r.resid << " (k=" << k << ") slack=" << (double)slack << " :: " << dump(c));
                        return;
                    }
                    vf::count("monotone_pairs." + sub);
                }
                prev_resid = r.resid; prev_bnd = bnd; have_prev = true;
            }
        }
        if (o.energy && k >= 1) {
            Vec<L> xg;
            if (cg_galerkin(c.Al, c.Bl, c.fl, c.x0l, k, xg)) {
                auto en = [&](const Vec<L> &y) { Vec<L> e = vsub(c.xstar, y); return sqrtl(std::max((ld)0, std::real(herm(e, mv(c.Al, e))))); };
                ld eg = en(xl), em = en(xg);
                if (!(eg <= em + sqrtl((ld)c.nA) * bnd)) {
                    vf::fail("optimal.cg_energy", C.key, vf::KS() << cfg << " k=" << k << " ||x*-x_k||_A=" << (double)eg << " > Galerkin minimum " << (double)em << " + " << (double)(sqrtl((ld)c.nA) * bnd) << " :: " << dump(c));
                    return;
                }
                vf::count("optimality_checked.cg_energy");
            }
        }
    }
}

template <class L> Iterates<L> map_iterates(const Iterates<L> &Y, const Vec<L> &x0, const DM<L> *B) {
    Iterates<L> X; X.growth = Y.growth; X.breakdown = Y.breakdown;
    for (auto &y : Y.x) X.x.push_back(axpy(x0, L(1), B ? mv(*B, y) : y));
    return X;
}

// C01's derived bound for |reported - true| relative residual (recursively updated residuals)
template <class V> ld drift_bound(const Case<V> &c, size_t iters, ld fn) {
    return 32 * (ld)U * (iters + 2) * sqrtl((ld)c.n) * c.kA * (1 + (ld)c.nA * nrm(c.x0l) / fn);
}

template <class V>
void check_termination(const Ctx<V> &C, const std::string &sub, const std::string &cfg, boost::property_tree::ptree p, int limit, int side, ld growth, int pc) {
    const Case<V> &c = C.c;
    // rule: the recurrence must be able to reach tol = 1e-8 in floating point: 64 u n kappa(A) kappa(B) growth <= 1e-9
    if (!(64 * (ld)U * c.n * c.kA * c.kB * growth <= 1e-9L)) { vf::count("skipped_termination_illconditioned." + sub); return; }
    p.erase("tol");                                         // default tol 1e-8, default maxiter 100
    std::vector<V> x; Run r = run_amgcl(c, p, x);
    vf::count("solves"); vf::count("termination_runs." + sub);
    if (r.threw) { vf::count("breakdown_exception." + sub); return; }          // allowed outcome (precondition: zero rho/omega/M[k,k])
    ld tr = sg::true_residual(c.A, c.f, x) / C.fn;
    ld scale = side == 0 ? (pc == 1 ? (ld)c.nA : (ld)1) : (ld)1;                // left: ||B r|| <= tol ||f||  =>  ||r|| <= ||B^-1|| tol ||f||
    ld lim = (1e-8L + drift_bound(c, r.iters, C.fn)) * scale * (1 + 1e-12L);
    if ((int)r.iters > limit)
        vf::fail("terminate.iters." + sub, C.key, vf::KS() << cfg << " needed " << r.iters << " iterations > " << limit << " (true relative residual " << (double)tr << ") :: " << dump(c));
    else if (!(tr <= lim))
        vf::fail("terminate.solution." + sub, C.key, vf::KS() << cfg << " stopped after " << r.iters << " iterations reporting " << r.resid << " but ||f-Ax||/||f||=" << (double)tr << " > " << (double)lim << " :: " << dump(c));
    if (r.iters >= 2) vf::count("termination_iters_ge_2." + sub);
}

template <class V> double norm2_of(const std::vector<V> &M, int n) {
    Eigen::Matrix<V, Eigen::Dynamic, Eigen::Dynamic> D(n, n); for (int i = 0; i < n; ++i) for (int j = 0; j < n; ++j) D(i, j) = M[i * n + j];
    return sg::svd_info_dense(D).smax;
}

// pc: 0 identity, 1 exact (rounded inverse), 2 Jacobi
template <class V>
void run_case(Case<V> &c, const std::string &key, bool hpd, int pc) {
    typedef typename ld_of<V>::type L;
    int n = c.n;
    Ctx<V> C{c, key, std::max(nrm(c.xstar), nrm(c.x0l)), nrm(c.fl)};
    int K = n + 2;
    g_compared_k1 = 0;
    DM<L> BA = mm(c.Bl, c.Al), AB = mm(c.Al, c.Bl);
    Vec<L> r0 = vsub(c.fl, mv(c.Al, c.x0l));
    const char *sides[2] = {"left", "right"};

    // ---- CG
    ld g_cg = 1; bool cg_ok = false;
    if (hpd) {
        auto R = ref_cg(c.Al, c.Bl, c.fl, c.x0l, K);
        Opts o; o.iterate = true; o.energy = true;
        check_method(C, "cg", "cg", sp("cg"), R, o);
        auto Rfull = ref_cg(c.Al, c.Bl, c.fl, c.x0l, n + 1);
        cg_ok = !Rfull.breakdown; g_cg = Rfull.growth.back();
    }
    // ---- BiCGStab, both sides
    ld g_bi[2] = {1, 1}; bool bi_ok[2] = {false, false};
    for (int side = 0; side < 2; ++side) {
        auto Y = ref_bicgstab(side == 0 ? BA : AB, side == 0 ? mv(c.Bl, r0) : r0, K);
        auto X = map_iterates(Y, c.x0l, side == 0 ? (const DM<L>*)nullptr : &c.Bl);
        if (Y.breakdown) vf::count(std::string("reference_breakdown.bicgstab.") + sides[side]);
        Opts o; o.iterate = true; o.side = side;
        auto p = sp("bicgstab"); p.put("pside", sides[side]);
        check_method(C, std::string("bicgstab.") + sides[side], std::string("bicgstab pside=") + sides[side], p, X, o);
        // termination rule for the BiCG family: neither the BiCGStab reference nor the underlying BiCG process breaks down,
        // both converge within n steps; growth = the larger of the two
        ld gb = 1; int kb = ref_bicg_growth(side == 0 ? BA : AB, side == 0 ? mv(c.Bl, r0) : r0, n, gb);
        bi_ok[side] = !Y.breakdown && (int)Y.x.size() <= n + 1 && kb >= 0;
        if (kb < 0) vf::count(std::string("reference_breakdown.bicg.") + sides[side]);
        g_bi[side] = std::max(Y.growth.back(), gb);
    }
    // ---- GMRES(M) both sides, FGMRES(M), LGMRES(M,K) first cycle
    ld g_gm[2] = {1, 1};
    for (int M : {1, 2, 4, 30}) for (int side = 0; side < 2; ++side) {
        auto R = ref_gmres(c.Al, c.Bl, c.fl, c.x0l, M, side, K);
        Opts o; o.iterate = true; o.optres = true; o.monotone = true; o.side = side;
        auto p = sp("gmres"); p.put("M", M); p.put("pside", sides[side]);
        check_method(C, std::string("gmres.") + sides[side], vf::KS() << "gmres M=" << M << " pside=" << sides[side], p, R, o);
        if (M == 30) g_gm[side] = R.growth.back();
        if (side == 1) {
            auto pf = sp("fgmres"); pf.put("M", M);
            check_method(C, "fgmres", vf::KS() << "fgmres M=" << M, pf, R, o);
        }
        if ((int)R.x.size() > M + 1) vf::count("restart_happened.gmres");
    }
    for (int M : {1, 2, 4}) for (int Kaug : {1, 3}) for (int side = 0; side < 2; ++side) {
        auto R = ref_gmres(c.Al, c.Bl, c.fl, c.x0l, M + Kaug, side, std::min(K, M + Kaug));      // first cycle only
        Opts o; o.optres = true; o.monotone = true; o.side = side;
        auto p = sp("lgmres"); p.put("M", M); p.put("K", Kaug); p.put("pside", sides[side]);
        check_method(C, std::string("lgmres.") + sides[side], vf::KS() << "lgmres M=" << M << " K=" << Kaug << " pside=" << sides[side], p, R, o);
    }
    // ---- Richardson
    for (double w : {1.0, 0.5}) {
        std::vector<V> T(n * n); for (int i = 0; i < n; ++i) for (int j = 0; j < n; ++j) T[i * n + j] = (V)((i == j ? L(1) : L(0)) - (L)(ld)w * BA(i, j));
        ld step = std::max((ld)1, (ld)norm2_of(T, n) * (1 + 1e-10L));
        auto R = ref_richardson(c.Al, c.Bl, c.fl, c.x0l, (ld)w, step, 4);
        Opts o; o.iterate = true;
        auto p = sp("richardson"); p.put("damping", w);
        check_method(C, "richardson", vf::KS() << "richardson damping=" << w, p, R, o);
    }
    // ---- finite termination with identity / exact preconditioner, default tol and maxiter
    if (pc == 0 || pc == 1) {
        if (hpd && cg_ok) check_termination(C, "cg", "cg", sp("cg"), n, 1, g_cg, pc);
        for (int side = 0; side < 2; ++side) {
            if (bi_ok[side]) {
                auto p = sp("bicgstab"); p.put("pside", sides[side]);
                check_termination(C, std::string("bicgstab.") + sides[side], std::string("bicgstab pside=") + sides[side], p, n, side, g_bi[side], pc);
                for (int Lp : {1, 2, 4}) for (int convex = 0; convex < 2; ++convex) {
                    auto q = sp("bicgstabl"); q.put("L", Lp); q.put("pside", sides[side]); q.put("convex", (bool)convex);
                    check_termination(C, vf::KS() << "bicgstabl" << Lp << "." << sides[side], vf::KS() << "bicgstabl L=" << Lp << " convex=" << convex << " pside=" << sides[side], q, n, side, g_bi[side], pc);
                }
            } else vf::count(std::string("skipped_termination_reference_breakdown.bicgstab.") + sides[side]);
            { auto p = sp("gmres"); p.put("pside", sides[side]); check_termination(C, std::string("gmres.") + sides[side], std::string("gmres M=30 pside=") + sides[side], p, n, side, g_gm[side], pc); }
            { auto p = sp("lgmres"); p.put("pside", sides[side]); check_termination(C, std::string("lgmres.") + sides[side], std::string("lgmres M=30 K=3 pside=") + sides[side], p, n, side, g_gm[side], pc); }
        }
        check_termination(C, "fgmres", "fgmres M=30", sp("fgmres"), n, 1, g_gm[1], pc);
        for (int s = 1; s <= std::min(n, 8); ++s) {
            auto p = sp("idrs"); p.put("s", s);
            check_termination(C, vf::KS() << "idrs" << s, vf::KS() << "idrs s=" << s, p, n + n / s, 1, 1, pc);
            if (s == 2) {
                auto q = p; q.put("smoothing", true); check_termination(C, "idrs2.smoothing", "idrs s=2 smoothing", q, n + n / s, 1, 1, pc);
                auto t = p; t.put("replacement", true); check_termination(C, "idrs2.replacement", "idrs s=2 replacement", t, n + n / s, 1, 1, pc);
            }
        }
        if (pc == 1) check_termination(C, "richardson", "richardson exact preconditioner", sp("richardson"), n, 1, 1, pc);
    }
    if (g_compared_k1 > 0) vf::nontrivial(vf::hstr(key));
}

// ---------------------------------------------------------------------------------------------
// systems
static const double WT[4] = {1, 0.5, 2, 1.5};
static const double DD[5] = {1, 2, 0.5, 1.5, 0.75};
static const double NS[6] = {-1, 0.5, -2, 1.5, -0.5, 1};
static const double SG[4] = {1, -0.5, 2, 0.75};
static const double GEN[10] = {1, -2, 3, 1.5, -0.5, 2.5, -1, 4, 0.75, -3};
enum { R_SPD = 0, R_NONSYM = 1, R_CHERM = 2, R_CSHIFT = 3 };
static const char *RULE[4] = {"spd", "nonsym", "cherm", "cshift"};

inline double mkv(double re, double) { return re; }
inline cplx mkv_c(double re, double im) { return cplx(re, im); }
template <class V> V mk(double re, double im);
template <> double mk<double>(double re, double) { return re; }
template <> cplx mk<cplx>(double re, double im) { return cplx(re, im); }

template <class V> sg::Crs<V> pattern_system(int n, uint32_t mask, int rule) { return sg::dominant_pattern<V>(n, mask, rule); }   // shared with C01

template <class V>
bool make_case(Case<V> &c, const sg::Crs<V> &A, int pc, int x0k, int rhsk, bool &hpd) {
    typedef typename ld_of<V>::type L;
    int n = A.n; c.n = n; c.A = A;
    auto D = sg::dense(A);
    c.Al = DM<L>(n); for (int i = 0; i < n; ++i) for (int j = 0; j < n; ++j) c.Al(i, j) = (L)D(i, j);
    auto si = sg::svd_info_dense(D); c.kA = si.kappa; c.nA = si.smax;
    if (!(si.smin > 0)) return false;
    // Hermitian positive definite?
    hpd = (D - D.adjoint()).norm() == 0;
    if (hpd) { Eigen::SelfAdjointEigenSolver<decltype(D)> es(D, Eigen::EigenvaluesOnly); hpd = es.eigenvalues()(0) > 0; }
    c.Bl = DM<L>(n);
    if (pc == 0) for (int i = 0; i < n; ++i) c.Bl(i, i) = 1;
    else if (pc == 1) c.Bl = inverse(c.Al);
    else for (int i = 0; i < n; ++i) c.Bl(i, i) = L(1) / c.Al(i, i);
    c.Bd.resize((size_t)n * n);
    for (int i = 0; i < n; ++i) for (int j = 0; j < n; ++j) { c.Bd[i * n + j] = (V)c.Bl(i, j); c.Bl(i, j) = (L)c.Bd[i * n + j]; }   // the reference uses the rounded B
    { Eigen::Matrix<V, Eigen::Dynamic, Eigen::Dynamic> Bm(n, n); for (int i = 0; i < n; ++i) for (int j = 0; j < n; ++j) Bm(i, j) = c.Bd[i * n + j];
      auto sb = sg::svd_info_dense(Bm); c.kB = sb.kappa; c.nB = sb.smax; }
    c.f.assign(n, V()); c.x0.assign(n, V());
    if (rhsk == 0) for (int i = 0; i < n; ++i) c.f[i] = mk<V>(GEN[i % 10], 0.5 * GEN[(i + 3) % 10]);
    else c.f[0] = mk<V>(1, 0);
    if (x0k == 1) for (int i = 0; i < n; ++i) c.x0[i] = mk<V>((double)(i + 1) / n, -0.5 * (i + 1) / n);
    c.fl = up(c.f); c.x0l = up(c.x0);
    if (!gsolve(c.Al.a, n, c.fl, c.xstar)) return false;
    return true;
}

template <class V>
void do_system(const sg::Crs<V> &A, const std::string &sysname, const std::string &keybase) {
    for (int pc = 0; pc < 3; ++pc) for (int x0k = 0; x0k < 2; ++x0k) for (int rhsk = 0; rhsk < 2; ++rhsk) {
        std::string key = vf::KS() << keybase << "|" << pc << "|" << x0k << "|" << rhsk;
        if (!vf::take([&] { return key; })) continue;
        Case<V> c; bool hpd = false;
        if (!make_case(c, A, pc, x0k, rhsk, hpd)) { vf::count("singular_system_skipped"); continue; }
        static const char *PC[3] = {"identity", "exact", "jacobi"};
        c.descr = vf::KS() << sysname << " precond=" << PC[pc] << " kappa(A)=" << c.kA << " kappa(B)=" << c.kB;
        vf::count(hpd ? "cases_hpd" : "cases_general");
        run_case(c, key, hpd, pc);
    }
}

#ifdef C05_COMPLEX
typedef cplx VT;
static const int RULES[2] = {R_CHERM, R_CSHIFT};
static const char *SEC = "c5c";
#else
typedef double VT;
static const int RULES[2] = {R_SPD, R_NONSYM};
static const char *SEC = "c5r";
#endif

static bool pattern_in_quick(int n, uint32_t mask) {
    // n = 4 nonsymmetric rules, quick tier: patterns that are symmetric, upper triangular or lower triangular
    bool sym = true, up_ = true, lo = true; int b = 0; bool e[4][4] = {};
    for (int i = 0; i < n; ++i) for (int j = 0; j < n; ++j) if (i != j) { e[i][j] = (mask >> b) & 1u; ++b; }
    for (int i = 0; i < n; ++i) for (int j = 0; j < n; ++j) if (i != j) { if (e[i][j] != e[j][i]) sym = false; if (i > j && e[i][j]) up_ = false; if (i < j && e[i][j]) lo = false; }
    return sym || up_ || lo;
}

int main(int argc, char **argv) {
    vf::init(argc, argv, "C05");
    if (vf::section(SEC)) {
        for (int rule : RULES) {
            bool symrule = (rule == R_SPD || rule == R_CHERM);
            for (int n = 1; n <= ((symrule && vf::thorough()) ? 5 : 4); ++n) {      // thorough: also all 1024 symmetric patterns n=5
                int bits = symrule ? n * (n - 1) / 2 : n * (n - 1);
                long cnt = 0;
                for (uint32_t mask = 0; mask < (1u << bits); ++mask) {
                    if (!symrule && n == 4 && vf::quick() && !vf::replaying() && !pattern_in_quick(n, mask)) continue;
                    auto A = pattern_system<VT>(n, mask, rule);
                    do_system<VT>(A, vf::KS() << "pattern n=" << n << " mask=" << mask << " rule=" << RULE[rule], vf::KS() << SEC << "|p|" << n << "|" << mask << "|" << RULE[rule]);
                    ++cnt;
                }
                vf::space(vf::KS() << "rule " << RULE[rule] << ": " << cnt << (symrule ? " symmetric" : "") << " patterns n=" << n
                          << ((!symrule && n == 4 && vf::quick()) ? " (symmetric or triangular patterns; thorough tier: all 4096)" : " (all)")
                          << " x precond{identity,exact,jacobi} x x0{0,ramp} x rhs{general,e1} x all solver configurations x k=0..n+2");
            }
        }
        // structured systems n = 6..10
        std::vector<std::pair<std::string, sg::Crs<VT>>> S;
        std::vector<int> sizes = vf::thorough() ? std::vector<int>{6, 7, 8, 9, 10} : std::vector<int>{6, 8};
#ifdef C05_COMPLEX
        for (int n : sizes) {
            S.push_back({vf::KS() << "cherm1d_" << n, sg::complex_hermitian_laplacian(n, 1, 0.25)});
            S.push_back({vf::KS() << "cshift1d_" << n, sg::complex_shifted_laplacian(n, 1, 0.25, 1.0)});
        }
        S.push_back({"cherm2d_3x3", sg::complex_hermitian_laplacian(3, 3, 0.25)});
        S.push_back({"cshift2d_3x3", sg::complex_shifted_laplacian(3, 3, 0.25, 1.0)});
        if (vf::thorough()) S.push_back({"cshift2d_2x4", sg::complex_shifted_laplacian(2, 4, 0.0, 2.0)});
#else
        for (int n : sizes) {
            S.push_back({vf::KS() << "lap1d_" << n, sg::grid_diffusion(n, 1, 1, sg::coef_mask(sg::COEF_UNIFORM, 1))});
            S.push_back({vf::KS() << "convdiff1d_" << n << "_pe2", sg::convection_diffusion(n, 1, 2.0, 1, 0)});
        }
        S.push_back({"lap2d_3x3", sg::grid_diffusion(3, 3, 1, sg::coef_mask(sg::COEF_UNIFORM, 1))});
        S.push_back({"lap2d_2x3_checker10", sg::grid_diffusion(2, 3, 1, sg::coef_mask(sg::COEF_CHECKER, 10))});
        S.push_back({"convdiff2d_3x3_pe2", sg::convection_diffusion(3, 3, 2.0, 1, 0.5)});
        if (vf::thorough()) S.push_back({"lap3d_2x2x2", sg::grid_diffusion(2, 2, 2, sg::coef_mask(sg::COEF_UNIFORM, 1))});
#endif
        for (auto &s : S) do_system<VT>(s.second, s.first, vf::KS() << SEC << "|s|" << s.first);
        vf::space(vf::KS() << S.size() << " structured systems n=6..10 (1-D/2-D Laplacians, upwind convection-diffusion"
#ifdef C05_COMPLEX
                  " -> complex Hermitian (magnetic) and complex shifted Laplacians"
#endif
                  ") x precond x x0 x rhs x all solver configurations (idrs s=1..8)");
    }
    vf::sample_str("pattern n=3 mask=5 rule=" + std::string(RULE[RULES[1]]) + ": A = " + sg::show(pattern_system<VT>(3, 5, RULES[1])));
    return vf::finish();
}
