// C13 unit "solve": path TU for static_matrix blocks, b=2, path group 3 (see C13_solve_paths.cpp)
#define C13_B 2
#define C13_EIGEN 0
#define C13_GROUP 3
#include "C13_solve_paths.cpp"
