// C09 -- whole hierarchies and full solves for every thread count (run-time interface).
#include <amgcl/backend/builtin.hpp>
#include <amgcl/adapter/crs_tuple.hpp>
#include <amgcl/make_solver.hpp>
#include <amgcl/amg.hpp>
#include <amgcl/coarsening/runtime.hpp>
#include <amgcl/relaxation/runtime.hpp>
#include <amgcl/solver/runtime.hpp>
#include <boost/property_tree/ptree.hpp>
#include <Eigen/Dense>
#include <cstring>
#include "vf.hpp"
#include "C09_inputs.hpp"

using namespace amgcl;
typedef backend::builtin<double> B;
typedef amg<B, runtime::coarsening::wrapper, runtime::relaxation::wrapper> AMG;
typedef make_solver<AMG, runtime::solver::wrapper<B>> Solver;

#include "C09_common.hpp"

static Blob dump(const AMG &a, const std::vector<double> &f, size_t &nlev) {
    Blob b;
    size_t nl = a.levels.size(); b.puti(&nl, sizeof nl); nlev = nl;
    int li = 0;
    for (auto &l : a.levels) {
        if (l.A) ser(b, *l.A);
        // across the SpGEMM switch only the finest-level operators and the first Galerkin product are
        // compared by value (deeper levels inherit the rounding difference and may amplify it)
        if (li == 1) b.cross = (long)b.vals.size();
        if (l.P) ser(b, *l.P);
        if (l.R) ser(b, *l.R);
        ++li;
    }
    if (b.cross < 0) b.cross = (long)b.vals.size();
    backend::numa_vector<double> ff(f), x(f.size());
    a.apply(ff, x);
    b.putv(x.data(), x.size());
    return b;
}

void run_hier() {
    auto systems = c09::systems();
    const char *coars[] = {"aggregation", "smoothed_aggregation", "ruge_stuben"};
    const char *relax[] = {"spai0", "gauss_seidel", "damped_jacobi"};
    for (auto &s : systems) {
        auto At = std::make_tuple(s.n, s.ptr, s.col, s.val);
        std::vector<double> f(s.n); for (size_t i = 0; i < s.n; ++i) f[i] = 1.0 + 0.25 * (double)(i % 5);
        for (auto c : coars) for (auto r : relax) {
            std::string key = std::string("hier|dump|") + s.name + "|" + c + "|" + r;
            boost::property_tree::ptree p;
            p.put("coarsening.type", c); p.put("relax.type", r); p.put("coarse_enough", 6);
            size_t nlev = 0;
            bitwise_phase(std::string("hierarchy.") + c + "." + r, key, true, [&]{ AMG a(At, p); return dump(a, f, nlev); });
            if (nlev >= 2) vf::count("hierarchies_with_2plus_levels");
        }
    }
    vf::space("hierarchy dumps: 6 systems x {aggregation, smoothed_aggregation, ruge_stuben} x {spai0, gauss_seidel, damped_jacobi} x 10 thread counts");

    // full solves: rounding class
    const char *coars2[] = {"smoothed_aggregation", "smoothed_aggr_emin", "ruge_stuben"};
    const char *relax2[] = {"spai0", "ilu0", "chebyshev", "gauss_seidel"};
    const char *solv[]   = {"cg", "bicgstab", "gmres", "idrs"};
    for (auto &s : systems) {
        if (!s.spd) continue;
#ifdef C09_TSAN
        if (s.name != "diffusion2d_7x7_c10") continue;
#endif
        auto At = std::make_tuple(s.n, s.ptr, s.col, s.val);
        Eigen::MatrixXd M = Eigen::MatrixXd::Zero(s.n, s.n);
        for (size_t i = 0; i < s.n; ++i) for (ptrdiff_t j = s.ptr[i]; j < s.ptr[i+1]; ++j) M(i, s.col[j]) = s.val[j];
        Eigen::JacobiSVD<Eigen::MatrixXd> svd(M);
        double kappa = svd.singularValues()(0) / svd.singularValues()(s.n - 1);
        std::vector<double> f(s.n); for (size_t i = 0; i < s.n; ++i) f[i] = 1.0 + 0.25 * (double)(i % 5);
        double nf = 0; for (double v : f) nf += v * v; nf = std::sqrt(nf);
        for (auto c : coars2) for (auto r : relax2) for (auto sv : solv) {
            std::string key = std::string("hier|solve|") + s.name + "|" + c + "|" + r + "|" + sv;
            if (!vf::take([&]{ return key; })) continue;
            boost::property_tree::ptree p;
            p.put("precond.coarsening.type", c); p.put("precond.relax.type", r); p.put("precond.coarse_enough", 6);
            if (std::string(r) == "chebyshev") p.put("precond.relax.power_iters", 4);
            p.put("solver.type", sv); p.put("solver.tol", 1e-8); p.put("solver.maxiter", 100);
            std::vector<double> xref;
            const double tol = 1e-8;
            vf::nontrivial(vf::hstr(key));
            for (int nt : NTS) {
                set_threads(nt, 0);
                std::vector<double> x(s.n, 0.0);
                size_t it = 0; double res = 0;
                try { Solver S(At, p); std::tie(it, res) = S(f, x); }
                catch (const std::exception &e) { vf::fail("threads.solve.exception", key, vf::KS() << "nt=" << nt << ": " << e.what()); break; }
                vf::count("runs");
                long double tr = 0;
                for (size_t i = 0; i < s.n; ++i) { long double a = f[i]; for (ptrdiff_t j = s.ptr[i]; j < s.ptr[i+1]; ++j) a -= (long double)s.val[j] * x[s.col[j]]; tr += a * a; }
                double trel = (double)std::sqrt(tr) / nf;
                // recursively updated residual vs true residual: drift bounded by c * eps * kappa * iters (C01); 1e-3 relative slack of tol is >> that here
                if (!(res < tol) || !(trel <= tol * (1 + 1e-3) + 64 * 2.2e-16 * kappa * (it + 2))) {
                    vf::fail("threads.solve.not_converged_or_untruthful", key, vf::KS() << "nt=" << nt << " iters=" << it << " reported=" << res << " true=" << trel);
                    break;
                }
                if (nt == 1) xref = x;
                else {
                    double d = 0, nx = 0; for (size_t i = 0; i < s.n; ++i) { d += (x[i] - xref[i]) * (x[i] - xref[i]); nx += xref[i] * xref[i]; }
                    // both satisfy ||f - A x|| <= tol ||f||  =>  ||x - x*|| <= kappa tol ||x*||  each
                    if (std::sqrt(d) > 2.2 * kappa * tol * std::sqrt(nx)) {
                        vf::fail("threads.solve.solution_differs", key, vf::KS() << "nt=" << nt << " ||x_nt - x_1|| / ||x_1|| = " << std::sqrt(d / nx) << " > 2.2 kappa tol = " << 2.2 * kappa * tol);
                        break;
                    }
                    vf::S().traces_validated += 1;
                }
            }
            set_threads(1, 0);
        }
    }
    vf::space("full solves: SPD systems x {smoothed_aggregation, smoothed_aggr_emin, ruge_stuben} x {spai0, ilu0, chebyshev(power), gauss_seidel} x {cg, bicgstab, gmres, idrs} x 10 thread counts");
}
