// C11 conformance binary: the rank body of the C11 check compiled against the REAL MPI (OpenMPI) and run
// under mpirun.  Usage: mpirun -np k conf_real <outprefix> <shard> <nshards> <stride>
// Every rank writes "<key> <digest>" lines to <outprefix>.<k>.<rank>.
#define C11_REAL_MPI
#include <mpi.h>
#include <fstream>
#include "C11_body.hpp"
int main(int argc, char **argv) {
    MPI_Init(&argc, &argv);
    int rank, k; MPI_Comm_rank(MPI_COMM_WORLD, &rank); MPI_Comm_size(MPI_COMM_WORLD, &k);
    std::string prefix = argv[1]; int shard = atoi(argv[2]), nsh = atoi(argv[3]), stride = atoi(argv[4]);
    std::ofstream f(prefix + "." + std::to_string(k) + "." + std::to_string(rank));
    auto cases = conformance_cases(k, stride);
    for (size_t i = 0; i < cases.size(); ++i) {
        if ((int)(i % nsh) != shard) continue;
        Out o = fresh_out(cases[i].cs);
        rank_body(rank, cases[i].cs, o);
        f << cases[i].key << " " << rank_digest(rank, cases[i].cs, o) << "\n";
    }
    f.close();
    MPI_Finalize();
    return 0;
}
