// C17 (unit "rebuild") -- two more ways of handing a matrix to the library:
//  (a) amg::rebuild(M): a hierarchy rebuilt from a matrix whose row entries are listed in arbitrary order
//      must equal the one rebuilt from the sorted matrix (all patterns below x all in-row permutations of one
//      row at a time + full reversal, coarsenings x relaxations incl. the ILU family);
//  (b) crs_builder: row iterators are independent objects (several live iterators, as the block adapter and
//      OpenMP row loops create them), block_matrix over a builder equals block_matrix over the CRS arrays.
#include <amgcl/backend/builtin.hpp>
#include <amgcl/adapter/crs_tuple.hpp>
#include <amgcl/adapter/crs_builder.hpp>
#include <amgcl/adapter/block_matrix.hpp>
#include <amgcl/value_type/static_matrix.hpp>
#include <amgcl/amg.hpp>
#include <amgcl/coarsening/runtime.hpp>
#include <amgcl/relaxation/runtime.hpp>
#include <boost/property_tree/ptree.hpp>
#include <algorithm>
#include <cstring>
#include "vf.hpp"

using namespace amgcl;
typedef backend::builtin<double> B;
typedef amg<B, runtime::coarsening::wrapper, runtime::relaxation::wrapper> AMG;

struct Sys { int n; std::vector<ptrdiff_t> ptr, col; std::vector<double> val; std::string name; };

static Sys grid(int nx, int ny, double shift, const char *nm) {
    Sys s; s.n = nx * ny; s.ptr.push_back(0); s.name = nm;
    for (int j = 0; j < ny; ++j) for (int i = 0; i < nx; ++i) {
        int c = j * nx + i;
        if (j) { s.col.push_back(c - nx); s.val.push_back(-1 - 0.125 * (c % 3)); }
        if (i) { s.col.push_back(c - 1); s.val.push_back(-1); }
        s.col.push_back(c); s.val.push_back(4.5 + shift + 0.25 * (c % 2));
        if (i + 1 < nx) { s.col.push_back(c + 1); s.val.push_back(-1 - 0.0625 * (c % 5)); }
        if (j + 1 < ny) { s.col.push_back(c + nx); s.val.push_back(-1); }
        s.ptr.push_back((ptrdiff_t)s.col.size());
    }
    return s;
}
// order: -1 = reverse every row; r >= 0: rotate row r by `shift` positions
static Sys shuffled(const Sys &s, int row, int shift) {
    Sys t = s;
    for (int i = 0; i < s.n; ++i) {
        ptrdiff_t b = s.ptr[i], e = s.ptr[i + 1], w = e - b;
        if (row < 0) { std::reverse(t.col.begin() + b, t.col.begin() + e); std::reverse(t.val.begin() + b, t.val.begin() + e); }
        else if (i == row && w > 1) { std::rotate(t.col.begin() + b, t.col.begin() + b + (shift % w), t.col.begin() + e); std::rotate(t.val.begin() + b, t.val.begin() + b + (shift % w), t.val.begin() + e); }
    }
    return t;
}

static std::vector<double> action(const AMG &a, int n) {
    std::vector<double> out;
    backend::numa_vector<double> f(n), x(n);
    for (int j = 0; j <= n; ++j) {
        for (int i = 0; i < n; ++i) f[i] = (j == n) ? 1.0 + 0.5 * i : (i == j ? 1.0 : 0.0);
        a.apply(f, x);
        out.insert(out.end(), x.data(), x.data() + n);
        if (n > 12 && j >= 3 && j < n) j = n - 1;    // unit vectors e_0..e_3 and the ramp for the larger systems
    }
    return out;
}

static void run_rebuild() {
    std::vector<Sys> systems = { grid(3, 1, 0, "grid3x1"), grid(4, 1, 0, "grid4x1"), grid(3, 3, 0, "grid3x3"), grid(5, 4, 0, "grid5x4") };
    const char *coars[] = {"smoothed_aggregation", "aggregation", "ruge_stuben", "smoothed_aggr_emin"};
    const char *relax[] = {"ilu0", "iluk", "ilup", "ilut", "spai0", "spai1", "gauss_seidel", "damped_jacobi", "chebyshev"};
    for (auto &s : systems) for (auto c : coars) for (auto r : relax) {
        std::string key = std::string("rb|") + s.name + "|" + c + "|" + r;
        if (!vf::take([&]{ return key; })) continue;
        boost::property_tree::ptree p; p.put("coarsening.type", c); p.put("relax.type", r); p.put("coarse_enough", 2); p.put("allow_rebuild", true);
        Sys s2 = grid(s.n == 3 ? 3 : (s.n == 4 ? 4 : (s.n == 9 ? 3 : 5)), s.n == 3 || s.n == 4 ? 1 : (s.n == 9 ? 3 : 4), 1.0, "update");   // same pattern, other values
        std::vector<double> ref; std::string ref_exc;
        try { AMG a(std::make_tuple((size_t)s.n, s.ptr, s.col, s.val), p); a.rebuild(std::make_tuple((size_t)s2.n, s2.ptr, s2.col, s2.val)); ref = action(a, s.n); }
        catch (const std::exception &e) { ref_exc = e.what(); }
        vf::nontrivial(vf::hstr(key));
        int nvar = 0;
        for (int row = -1; row < s.n; ++row) for (int sh = 1; sh <= (row < 0 ? 1 : 2); ++sh) {
            Sys t = shuffled(s2, row, sh);
            if (t.col == s2.col) continue;
            ++nvar;
            std::vector<double> got; std::string exc;
            try { AMG a(std::make_tuple((size_t)s.n, s.ptr, s.col, s.val), p); a.rebuild(std::make_tuple((size_t)t.n, t.ptr, t.col, t.val)); got = action(a, s.n); }
            catch (const std::exception &e) { exc = e.what(); }
            if (exc != ref_exc) { vf::fail(std::string("rebuild.shuffled.") + r + ".throws", key, vf::KS() << "rebuild from the matrix with " << (row < 0 ? std::string("every row reversed") : "row " + std::to_string(row) + " rotated by " + std::to_string(sh)) << ": '" << exc << "' vs sorted: '" << ref_exc << "'"); break; }
            if (!exc.empty()) continue;
            double worst = 0, scale = 0;
            for (size_t i = 0; i < ref.size(); ++i) { worst = std::max(worst, std::abs(got[i] - ref[i])); scale = std::max(scale, std::abs(ref[i])); }
            // the internal copy is sorted before use, so the two hierarchies are the same object byte for byte
            if (worst != 0) { vf::fail(std::string("rebuild.shuffled.") + r + ".action_differs", key, vf::KS() << "max |B_shuffled f - B_sorted f| = " << worst << " (scale " << scale << ") after rebuild from a matrix with " << (row < 0 ? std::string("every row reversed") : "row " + std::to_string(row) + " rotated")); break; }
        }
        vf::count("shuffled_rebuilds", nvar);
    }
    vf::space("amg::rebuild from shuffled vs sorted matrix: 4 grids x 4 coarsenings x 9 relaxations x (full reversal + rotations of every single row)");
}

struct Builder {
    typedef double val_type; typedef long col_type;
    const Sys *s;
    size_t rows() const { return s->n; }
    size_t nonzeros() const { return s->col.size(); }
    void operator()(size_t row, std::vector<col_type> &col, std::vector<val_type> &val) const {
        for (ptrdiff_t j = s->ptr[row]; j < s->ptr[row + 1]; ++j) { col.push_back(s->col[j]); val.push_back(s->val[j]); }
    }
};

static void run_builder() {
    std::vector<Sys> systems = { grid(2, 1, 0, "grid2x1"), grid(4, 1, 0, "grid4x1"), grid(3, 2, 0, "grid3x2"), grid(4, 4, 0, "grid4x4") };
    for (auto &s : systems) {
        std::string key = std::string("bi|") + s.name;
        if (!vf::take([&]{ return key; })) continue;
        Builder b{&s};
        auto A = adapter::make_matrix(b);
        vf::nontrivial(vf::hstr(key));
        // every ordered pair of rows: iterator on row i created, then one on row j, then row i is walked
        for (int i = 0; i < s.n; ++i) for (int j = 0; j < s.n; ++j) {
            auto ai = backend::row_begin(A, i);
            auto aj = backend::row_begin(A, j);
            ptrdiff_t q = s.ptr[i];
            bool ok = true;
            for (; ai; ++ai, ++q) if (q >= s.ptr[i + 1] || ai.col() != s.col[q] || ai.value() != s.val[q]) { ok = false; break; }
            if (q != s.ptr[i + 1]) ok = false;
            ptrdiff_t q2 = s.ptr[j];
            for (; aj; ++aj, ++q2) if (q2 >= s.ptr[j + 1] || aj.col() != s.col[q2] || aj.value() != s.val[q2]) { ok = false; break; }
            if (!ok) { vf::fail("crs_builder.row_iterators_not_independent", key, vf::KS() << "iterator over row " << i << " (or " << j << ") reports wrong entries while another row iterator is alive"); i = s.n; break; }
        }
        // block adapter over the builder == block adapter over the CRS arrays (keeps BlockSize base iterators alive)
        if (s.n % 2 == 0) {
            typedef static_matrix<double, 2, 2> Blk;
            auto Bb = adapter::block_matrix<Blk>(A);
            auto tup = std::make_tuple((size_t)s.n, s.ptr, s.col, s.val);     // the adapter keeps a reference
            auto Bt = adapter::block_matrix<Blk>(tup);
            backend::crs<Blk> X(Bb), Y(Bt);
            bool same = X.nrows == Y.nrows && X.nnz == Y.nnz;
            for (size_t q = 0; same && q < X.nnz; ++q) { same = X.col[q] == Y.col[q]; for (int e = 0; e < 4 && same; ++e) same = X.val[q](e) == Y.val[q](e); }
            for (size_t q = 0; same && q <= X.nrows; ++q) same = X.ptr[q] == Y.ptr[q];
            if (!same) vf::fail("crs_builder.block_matrix_differs", key, "block_matrix<2x2> over make_matrix(builder) differs from block_matrix<2x2> over the CRS arrays");
        }
        // conversion to crs equals the arrays
        backend::crs<double> C(A);
        bool same = C.nrows == (size_t)s.n && C.nnz == s.col.size();
        for (size_t q = 0; same && q < C.nnz; ++q) same = C.col[q] == s.col[q] && C.val[q] == s.val[q];
        if (!same) vf::fail("crs_builder.crs_copy_differs", key, "crs<double>(make_matrix(builder)) differs from the source arrays");
    }
    vf::space("crs_builder: every ordered pair of simultaneously live row iterators on 4 grids; block_matrix<2x2> over builder vs over CRS arrays");
}

int main(int argc, char **argv) {
    vf::init(argc, argv, "C17");
    vf::sample_str("rebuild case: grid3x3 + smoothed_aggregation + ilu0, allow_rebuild, rebuild(update matrix with row 4 rotated) vs rebuild(sorted update matrix): identical action on e_0..e_3 and a ramp");
    if (vf::section("rb")) run_rebuild();
    if (vf::section("bi")) run_builder();
    return vf::finish();
}
