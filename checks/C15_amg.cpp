// C15 unit "amg": amg hierarchies (apply / cycle / rebuild) and skyline_lu as live objects.
#include "C15_amgstate.hpp"
#include <amgcl/coarsening/smoothed_aggregation.hpp>
#include <amgcl/coarsening/aggregation.hpp>
#include <amgcl/coarsening/ruge_stuben.hpp>
#include <amgcl/coarsening/smoothed_aggr_emin.hpp>

using namespace c15;
typedef double V;
typedef amgcl::backend::builtin<V> Backend;
typedef amgcl::backend::crs<V> Crs;

struct AProblem {
    Sys<V> A0, A1, A2, Awrong, Azero;
    uint64_t h0, h1, h2, hw, hz;
    std::vector<V> f[F_KINDS], xexact, xramp;
    std::string name;
    AProblem(const std::string &name, double pe) : name(name) {
        A0 = grid<V>(4, 4, pe, 1.0, 0, name);
        A1 = grid<V>(4, 4, pe * 0.5, 1.75, 0, name + "_perturbed");
        A2 = grid<V>(16, 1, pe, 1.0, 0, name + "_chain");
        Awrong = grid<V>(3, 3, pe, 1.0, 0, name + "_3x3");
        Azero = zero_values(A0);
        h0 = A0.hash(); h1 = A1.hash(); h2 = A2.hash(); hw = Awrong.hash(); hz = Azero.hash();
        for (int k = 0; k < F_KINDS; ++k) f[k] = rhs<V>(k, 16);
        xexact = dense_solve(A0, f[F_GEN]); xramp = ramp<V>(16);
    }
    bool intact(std::string &w) const {
        if (A0.hash() != h0) { w = "A0"; return false; } if (A1.hash() != h1) { w = "A1"; return false; }
        if (A2.hash() != h2) { w = "A2"; return false; } if (Awrong.hash() != hw) { w = "Awrong"; return false; }
        if (Azero.hash() != hz) { w = "Azero"; return false; }
        return true;
    }
};

template <class AMG>
struct AmgKind {
    struct Obj { std::unique_ptr<AMG> a; bool degenerate = false; std::shared_ptr<Crs> shared; };
    const AProblem &pb; typename AMG::params prm; std::string nm; bool shared_ctor;
    std::vector<Op<Obj>> op;
    AmgKind(const AProblem &pb, const typename AMG::params &prm, const std::string &nm, bool shared_ctor) : pb(pb), prm(prm), nm(nm), shared_ctor(shared_ctor) { build(); }
    std::unique_ptr<Obj> make() {
        std::unique_ptr<Obj> o(new Obj);
        if (shared_ctor) { o->shared = std::make_shared<Crs>(pb.A0.tie()); o->a.reset(new AMG(o->shared, prm)); }
        else o->a.reset(new AMG(pb.A0.tie(), prm));
        return o;
    }
    const std::vector<Op<Obj>>& ops() const { return op; }
    uint64_t state_key(const Obj &o) const { Hs h; hstate(h, *o.a); h.pod(o.degenerate); return h.h; }
    std::string name() const { return nm; }
    RefPolicy policy() const { return REF_LAST_MUTATOR; }
    bool equality() const { return true; }
    int probe() const { return 0; }

    void integrity(Outcome &o, const NV<V> &rhs, const std::vector<V> &f, const Obj &ob) const {
        if (!same_bytes(rhs, f)) o.notes.push_back({"rhs_modified", "the right-hand side vector was written to"});
        std::string w; if (!pb.intact(w)) o.notes.push_back({"matrix_modified", "user matrix " + w + " was written to"});
        if (ob.shared) { Crs ref(pb.A0.tie()); Hs a, b; a.crs(*ob.shared); b.crs(ref); if (a.h != b.h) o.notes.push_back({"matrix_modified", "the shared system matrix given to the constructor was written to"}); }
    }
    void build() {
        for (int fk = 0; fk < F_KINDS; ++fk) {
            Op<Obj> o; o.name = std::string("apply(") + fname(fk) + ")";
            o.run = [this, fk](Obj &ob) {
                Outcome r; NV<V> rhs(pb.f[fk]), x(std::vector<V>(16, 7.0));
                try { ob.a->apply(rhs, x); } catch (const std::exception &e) { r.status = 1; r.what = e.what(); }
                double z = 0; r.put(&z, 1); r.put(&x[0], x.size());
                integrity(r, rhs, pb.f[fk], ob);
                if (fk == F_ZERO && !ob.degenerate && !r.status) { if (!all_zero(x)) r.notes.push_back({"zero_rhs", "apply(0) returned a non-zero vector"}); else vf::count("zero_rhs_checked"); }
                return r;
            };
            op.push_back(o);
        }
        struct CY { int fk; int xk; };
        for (CY c : std::vector<CY>{{F_GEN, X_ZERO}, {F_GEN, X_EXACT}, {F_GEN, X_RAMP}, {F_ZERO, X_RAMP}, {F_NAN, X_RAMP}, {F_GEN2, X_RAMP}}) {
            Op<Obj> o; o.name = std::string("cycle(") + fname(c.fk) + "," + xname(c.xk) + ")";
            o.run = [this, c](Obj &ob) {
                Outcome r; NV<V> rhs(pb.f[c.fk]);
                NV<V> x(c.xk == X_ZERO ? std::vector<V>(16, 0.0) : (c.xk == X_EXACT ? pb.xexact : pb.xramp));
                try { ob.a->cycle(rhs, x); } catch (const std::exception &e) { r.status = 1; r.what = e.what(); }
                double z = 0; r.put(&z, 1); r.put(&x[0], x.size());
                integrity(r, rhs, pb.f[c.fk], ob);
                return r;
            };
            op.push_back(o);
        }
        auto reb = [&](const char *nm, const Sys<V> *A, OpClass cls, bool degenerate, bool as_shared) {
            Op<Obj> o; o.name = std::string("rebuild(") + nm + (as_shared ? ",shared_ptr" : "") + ")"; o.cls = cls;
            o.run = [this, A, degenerate, as_shared](Obj &ob) {
                Outcome r; std::shared_ptr<Crs> sp;
                try {
                    if (as_shared) { sp = std::make_shared<Crs>(A->tie()); ob.a->rebuild(sp); } else ob.a->rebuild(A->tie());
                    ob.degenerate = degenerate;
                } catch (const std::exception &e) { r.status = 1; r.what = e.what(); vf::count("rebuilds_that_threw"); }
                double z = 0; r.put(&z, 1);
                std::string w; if (!pb.intact(w)) r.notes.push_back({"matrix_modified", "user matrix " + w + " was written to by rebuild"});
                if (sp) { Crs ref(A->tie()); Hs a, b; a.crs(*sp); b.crs(ref); if (a.h != b.h) r.notes.push_back({"matrix_modified", "the shared matrix given to rebuild was written to"}); }
                return r;
            };
            op.push_back(o);
        };
        if (prm.allow_rebuild) {
            reb("A1", &pb.A1, MUTATOR, false, false);
            reb("A2", &pb.A2, MUTATOR, false, true);
            reb("A0", &pb.A0, MUTATOR, false, false);
            reb("A3x3", &pb.Awrong, MUTATOR_ATOMIC_FAIL, false, false);
            reb("Azero", &pb.Azero, MUTATOR_POISON, true, false);
        } else {
            reb("A1", &pb.A1, MUTATOR_ATOMIC_FAIL, false, false);
        }
    }
};

struct LuKind {
    typedef amgcl::solver::skyline_lu<V> Obj;
    const AProblem &pb; std::vector<Op<Obj>> op; const Sys<V> &A; std::string nm;
    LuKind(const AProblem &pb, const Sys<V> &A, const std::string &nm) : pb(pb), A(A), nm(nm) {
        for (int fk = 0; fk < F_KINDS; ++fk) for (int pre = 0; pre < 2; ++pre) {
            Op<Obj> o; o.name = std::string("solve(") + fname(fk) + (pre ? ",x prefilled with NaN)" : ",x prefilled with 0)");
            o.run = [this, fk, pre](Obj &S) {
                Outcome r; NV<V> rhs(this->pb.f[fk]), x(std::vector<V>(16, pre ? std::numeric_limits<double>::quiet_NaN() : 0.0));
                try { S(rhs, x); } catch (const std::exception &e) { r.status = 1; r.what = e.what(); }
                double z = 0; r.put(&z, 1); r.put(&x[0], x.size());
                if (!same_bytes(rhs, this->pb.f[fk])) r.notes.push_back({"rhs_modified", "the right-hand side vector was written to"});
                std::string w; if (!this->pb.intact(w)) r.notes.push_back({"matrix_modified", "user matrix " + w + " was written to"});
                if (fk == F_ZERO) { if (!all_zero(x)) r.notes.push_back({"zero_rhs", "solve(0) returned a non-zero vector"}); else vf::count("zero_rhs_checked"); }
                return r;
            };
            op.push_back(o);
        }
    }
    std::unique_ptr<Obj> make() { return std::unique_ptr<Obj>(new Obj(A.tie())); }
    const std::vector<Op<Obj>>& ops() const { return op; }
    uint64_t state_key(const Obj &o) const { Hs h; hstate(h, o); return h.h; }
    std::string name() const { return nm; }
    RefPolicy policy() const { return REF_LAST_MUTATOR; }
    bool equality() const { return true; }
    int probe() const { return -1; }
};

template <class Kind>
static bool run_kind(Kind &K, const std::string &cfg, int quick_depth, int thorough_depth) {
    bool ran = false;
    std::vector<int> ds = vf::replaying() ? std::vector<int>{1, 2, 3, 4, 5, 6} : std::vector<int>{vf::thorough() ? thorough_depth : quick_depth};
    for (int d : ds) {
        std::string key = vf::KS() << "bfs|double|" << K.name() << "|" << cfg << "|d" << d;
        if (!vf::take([&]{ return key; })) continue;
        ran = true;
        ExploreStats st = explore(K, key, d);
        vf::count("bfs_runs_with_alphabet_of_" + std::to_string(K.ops().size()) + "_calls." + K.name());
        vf::count("states_" + K.name(), st.states);
        vf::count("transitions_" + K.name(), st.transitions);
    }
    return ran;
}

template <class AMG>
static void amg_cfgs(const AProblem &pb, const std::string &nm, bool cheap) {
    const int Q = 3, T = 4;
    auto go = [&](const std::string &cfg, typename AMG::params p, bool shared, int q, int t) {
        AmgKind<AMG> K(pb, p, nm, shared);
        if (run_kind(K, pb.name + "/" + cfg, q, t)) { auto o = K.make(); vf::count("amg_configurations_with_" + std::to_string(amg_levels(*o->a)) + "_levels"); }
    };
    typename AMG::params p; p.coarse_enough = 3;
    go("V,coarse_enough3", p, false, Q, cheap ? 4 : T);
    go("V,coarse_enough3,shared_ctor", p, true, Q, T);
    { auto q = p; q.ncycle = 2; q.npre = 2; q.npost = 0; go("W,npre2,npost0", q, false, Q, T); }
    { auto q = p; q.pre_cycles = 2; go("V,pre_cycles2", q, false, Q, T); }
    { auto q = p; q.pre_cycles = 0; go("pre_cycles0", q, false, Q, T); }
    { auto q = p; q.direct_coarse = false; go("V,relax_coarse", q, false, Q, T); }
    { auto q = p; q.max_levels = 2; go("V,max_levels2", q, false, Q, T); }
    { auto q = p; q.coarse_enough = 100; go("single_level_direct", q, false, Q, T); }
    { auto q = p; q.allow_rebuild = false; go("V,no_rebuild", q, false, Q, T); }
}

int main(int argc, char **argv) {
    vf::init(argc, argv, "C15");
    if (vf::section("bfs")) {
        AProblem spd("spd4x4", 0.0), ns("convdiff4x4", 0.75);
        vf::sample_str("alphabet of an amg kind: apply(f) for f in {gen,gen2,zero,nan,e1,huge}; cycle(f,x0) for 6 pairs; rebuild(A1 perturbed), rebuild(A2 chain pattern, shared_ptr), rebuild(A0), rebuild(3x3 matrix: throws), rebuild(all values zero: throws in the coarse solver after the fine level was replaced)");
        namespace c = amgcl::coarsening; namespace r = amgcl::relaxation;
        for (const AProblem *pb : {&spd, &ns}) {
            amg_cfgs<amgcl::amg<Backend, c::smoothed_aggregation, r::spai0>>(*pb, "amg_sa_spai0", true);
            amg_cfgs<amgcl::amg<Backend, c::ruge_stuben, r::gauss_seidel>>(*pb, "amg_rs_gs", false);
            amg_cfgs<amgcl::amg<Backend, c::aggregation, r::ilu0>>(*pb, "amg_aggr_ilu0", false);
            amg_cfgs<amgcl::amg<Backend, c::smoothed_aggregation, r::chebyshev>>(*pb, "amg_sa_cheb", false);
            amg_cfgs<amgcl::amg<Backend, c::smoothed_aggr_emin, r::damped_jacobi>>(*pb, "amg_emin_jacobi", false);
            { LuKind K(*pb, pb->A0, "skyline_lu"); run_kind(K, pb->name, 4, 6); }
            { LuKind K(*pb, pb->A2, "skyline_lu"); run_kind(K, pb->name + "_chain", 4, 6); }
        }
        vf::space("all call histories up to the tier depth over the amg alphabet for 5 coarsening/relaxation pairs x 9 cycle configurations x {spd4x4, convdiff4x4}; skyline_lu on 2 matrices x 2 problems");
    }
    return vf::finish();
}
