// C09 (units "threads" / "libgomp" / "tsan") -- thread-count enumeration.
// Every phase is run for nt in {1,2,3,4,5,8,16,17,24,32}; "bitwise class" phases must give
// byte-identical output for every nt (and, under the fiber shim, for three different default
// schedules); "rounding class" phases must agree within a bound derived from the data.
// The same source is built three times:
//   threads : fiber shim (deterministic schedules 0/1/2)
//   libgomp : real libgomp, free running  (-DC09_REAL_OMP)      -> conformance of the shim
//   tsan    : gomp_pthread + ThreadSanitizer (-DC09_REAL_OMP)   -> unsynchronised accesses
#include <amgcl/backend/builtin.hpp>
#include <amgcl/adapter/crs_tuple.hpp>
#include <amgcl/coarsening/plain_aggregates.hpp>
#include <amgcl/coarsening/pointwise_aggregates.hpp>
#include <amgcl/coarsening/aggregation.hpp>
#include <amgcl/coarsening/smoothed_aggregation.hpp>
#include <amgcl/coarsening/ruge_stuben.hpp>
#include <amgcl/relaxation/gauss_seidel.hpp>
#include <amgcl/relaxation/ilu0.hpp>
#include <amgcl/relaxation/spai0.hpp>
#include <amgcl/relaxation/damped_jacobi.hpp>
#include <amgcl/relaxation/as_preconditioner.hpp>
#include <amgcl/solver/bicgstab.hpp>
#include <amgcl/deflated_solver.hpp>
#include <cstring>
#include <omp.h>
#include "vf.hpp"
#include "C09_inputs.hpp"
#include "C09_common.hpp"
#ifndef C09_REAL_OMP
#include "vsched.hpp"
#endif

using namespace amgcl;
typedef backend::builtin<double> B;
typedef backend::crs<double, ptrdiff_t, ptrdiff_t> Crs;

void run_hier();   // C09_hier.cpp

#ifdef C09_REAL_OMP
void set_threads(int nt, int) { omp_set_num_threads(nt); }
extern const int NPOL = 1;
#else
void set_threads(int nt, int policy) { vs::cfg().max_threads = nt; vs::cfg().default_policy = policy; vs::cfg().prefix.clear(); vs::begin_execution(); }
extern const int NPOL = 3;
#endif
static void kernels(const c09::Sys &s) {
    auto At = std::make_tuple(s.n, s.ptr, s.col, s.val);
    Crs A(At);
    const std::string in = s.name;
    bitwise_phase("crs_copy", "thr|crs_copy|" + in, false, [&]{ Crs X(At); Blob b; ser(b, X); Crs Y(X); ser(b, Y); Crs Z; Z = X; ser(b, Z); return b; });
    bitwise_phase("transpose", "thr|transpose|" + in, false, [&]{ auto T = backend::transpose(A); Blob b; ser(b, *T); return b; });
    bitwise_phase("product", "thr|product|" + in, true, [&]{ auto C = backend::product(A, A, true); Blob b; ser(b, *C); auto C2 = backend::product(A, *C, false); backend::sort_rows(*C2); ser(b, *C2); return b; });
    bitwise_phase("product_unsorted_saad", "thr|product_unsorted_saad|" + in, false, [&]{ Crs C; backend::spgemm_saad(A, A, C, false); Blob b; ser(b, C); return b; });
    bitwise_phase("product_rmerge", "thr|product_rmerge|" + in, false, [&]{ Crs C; backend::spgemm_rmerge(A, A, C); Blob b; ser(b, C); return b; });
    bitwise_phase("sum", "thr|sum|" + in, false, [&]{ auto T = backend::transpose(A); auto C = backend::sum(2.0, A, -1.0, *T, true); Blob b; ser(b, *C); auto C2 = backend::sum(1.0, A, 1.0, *T, false); ser(b, *C2); return b; });
    bitwise_phase("scale_sort_diag", "thr|scale_sort_diag|" + in, false, [&]{ Crs X(A); backend::scale(X, 0.5); backend::sort_rows(X); Blob b; ser(b, X); auto d = backend::diagonal(X, true); serd(b, *d); return b; });
    if (s.n % 2 == 0) bitwise_phase("pointwise_matrix", "thr|pointwise_matrix|" + in, false, [&]{ auto Pm = backend::pointwise_matrix(A, 2); Blob b; ser(b, *Pm); return b; });
    bitwise_phase("gershgorin", "thr|gershgorin|" + in, false, [&]{ double r = backend::spectral_radius<true>(A, 0), q = backend::spectral_radius<false>(A, 0); Blob b; b.putv(&r, 1); b.putv(&q, 1); return b; });
    // vectors
    std::vector<double> x(s.n), y(s.n), z(s.n);
    for (size_t i = 0; i < s.n; ++i) { x[i] = 1.0 / (1 + i % 7) - 0.3; y[i] = 0.01 * (double)((i * 37) % 101) - 0.5; z[i] = (i % 3) - 1.0; }
    bitwise_phase("spmv_residual", "thr|spmv_residual|" + in, false, [&]{ std::vector<double> r = z, q = z; backend::spmv(2.0, A, x, -1.0, r); backend::residual(y, A, x, q); backend::spmv(1.0, A, y, 0.0, q); Blob b; serd(b, r); serd(b, q); return b; });
    bitwise_phase("vector_ops", "thr|vector_ops|" + in, false, [&]{ std::vector<double> r = z, q = z, w = z, c(s.n); backend::axpby(2.0, x, -1.0, r); backend::axpbypcz(0.5, x, 2.0, y, -1.0, q); backend::vmul(2.0, x, y, 0.5, w); backend::copy(x, c); backend::axpby(1.0, y, 0.0, c); Blob b; serd(b, r); serd(b, q); serd(b, w); serd(b, c); backend::clear(c); serd(b, c); return b; });
    // inner product: rounding class.  Both values are Kahan / pairwise style sums of the same products:
    // |ip_nt - ip_1| <= 2 * (n + nt) * eps * sum |x_i y_i|
    {
        std::string key = "thr|inner_product|" + in;
        if (vf::take([&]{ return key; })) {
            set_threads(1, 0);
            double ref = backend::inner_product(x, y);
            long double absum = 0; for (size_t i = 0; i < s.n; ++i) absum += std::abs((long double)x[i] * y[i]);
            long double exact = 0; for (size_t i = 0; i < s.n; ++i) exact += (long double)x[i] * y[i];
            vf::nontrivial(vf::hstr(key));
            for (int nt : NTS) for (int pol = 0; pol < NPOL; ++pol) {
                set_threads(nt, pol);
                double got = backend::inner_product(x, y);
                double bound = 2.0 * (s.n + nt) * 2.2204460492503131e-16 * (double)absum;
                if (!(std::abs(got - ref) <= bound) || !(std::abs((long double)got - exact) <= bound))
                    vf::fail("threads.rounding.inner_product", key, vf::KS() << "nt=" << nt << " got " << got << " nt=1 " << ref << " bound " << bound);
                vf::count("runs");
            }
            set_threads(1, 0);
        }
    }
    // aggregation and transfer operators (bitwise class)
    bitwise_phase("plain_aggregates", "thr|plain_aggregates|" + in, false, [&]{ coarsening::plain_aggregates::params p; coarsening::plain_aggregates ag(A, p); Blob b; seri(b, ag.id); seri(b, ag.strong_connection); b.puti(&ag.count, sizeof ag.count); return b; });
    if (s.n % 2 == 0) bitwise_phase("pointwise_aggregates_b2", "thr|pointwise_aggregates_b2|" + in, false, [&]{ coarsening::pointwise_aggregates::params p; p.block_size = 2; coarsening::pointwise_aggregates ag(A, p, 1); Blob b; seri(b, ag.id); seri(b, ag.strong_connection); b.puti(&ag.count, sizeof ag.count); return b; });
    bitwise_phase("transfer_aggregation", "thr|transfer_aggregation|" + in, true, [&]{ coarsening::aggregation<B> c; auto PR = c.transfer_operators(A); Blob b; ser(b, *std::get<0>(PR)); ser(b, *std::get<1>(PR)); auto Ac = c.coarse_operator(A, *std::get<0>(PR), *std::get<1>(PR)); backend::sort_rows(*Ac); ser(b, *Ac); return b; });
    bitwise_phase("transfer_smoothed_aggregation", "thr|transfer_smoothed_aggregation|" + in, true, [&]{ coarsening::smoothed_aggregation<B> c; auto PR = c.transfer_operators(A); Blob b; backend::sort_rows(*std::get<0>(PR)); backend::sort_rows(*std::get<1>(PR)); ser(b, *std::get<0>(PR)); ser(b, *std::get<1>(PR)); auto Ac = c.coarse_operator(A, *std::get<0>(PR), *std::get<1>(PR)); backend::sort_rows(*Ac); ser(b, *Ac); return b; });
    bitwise_phase("transfer_ruge_stuben", "thr|transfer_ruge_stuben|" + in, false, [&]{ coarsening::ruge_stuben<B> c; auto PR = c.transfer_operators(A); Blob b; backend::sort_rows(*std::get<0>(PR)); backend::sort_rows(*std::get<1>(PR)); ser(b, *std::get<0>(PR)); ser(b, *std::get<1>(PR)); return b; });
    // relaxation sweeps
    bitwise_phase("gauss_seidel_sweeps", "thr|gauss_seidel_sweeps|" + in, false, [&]{ relaxation::gauss_seidel<B> gs(A, relaxation::gauss_seidel<B>::params(), B::params()); std::vector<double> u = z, t(s.n); gs.apply_pre(A, x, u, t); Blob b; serd(b, u); gs.apply_post(A, y, u, t); serd(b, u); gs.apply(A, x, u); serd(b, u); return b; });
    bitwise_phase("spai0_jacobi_sweeps", "thr|spai0_jacobi_sweeps|" + in, false, [&]{ relaxation::spai0<B> r0(A, relaxation::spai0<B>::params(), B::params()); relaxation::damped_jacobi<B> dj(A, relaxation::damped_jacobi<B>::params(), B::params()); backend::numa_vector<double> u(z), t(s.n), xx(x); r0.apply_pre(A, xx, u, t); Blob b; serd(b, u); dj.apply_post(A, xx, u, t); serd(b, u); return b; });
    // deflated solver: E = Z^T A Z and its inverse are built at construction; project() forms Z^T (b - A x) with inner products,
    // i.e. cross-thread reductions: rounding class (a first version of this phase demanded bitwise equality -- a false alarm of
    // the harness).  The same body runs free under ThreadSanitizer in the tsan unit: scratch shared between the rows of the
    // loop that assembles E would be a race there.
    if (s.n >= 6) {
        typedef amgcl::deflated_solver<relaxation::as_preconditioner<B, relaxation::spai0>, solver::bicgstab<B>> DS;
        std::vector<double> Zv(3 * s.n);
        for (size_t i = 0; i < s.n; ++i) { Zv[i] = 1.0; Zv[s.n + i] = (double)i / s.n - 0.5; Zv[2 * s.n + i] = (i % 2) ? 1.0 : -0.5; }
        std::string key = "thr|deflated_projection|" + in;
        if (vf::take([&]{ return key; })) {
            auto once = [&]{ DS::params p; p.nvec = 3; p.vec = Zv.data(); p.solver.maxiter = 1; DS ds(At, p); std::vector<double> xx = z, yy = y; ds.project(yy, xx); return xx; };
            set_threads(1, 0);
            std::vector<double> ref = once();
            double scale = 0; for (double v : ref) scale = std::max(scale, std::abs(v));
            vf::nontrivial(vf::hstr(key));
            for (int nt : NTS) for (int pol = 0; pol < NPOL; ++pol) {
                set_threads(nt, pol);
                std::vector<double> got = once();
                double worst = 0; for (size_t i = 0; i < ref.size(); ++i) worst = std::max(worst, std::abs(got[i] - ref[i]));
                vf::count("runs");
                // three reductions of length n and a 3x3 solve: the results of two summation orders differ by a few n eps relative
                if (!(worst <= 64.0 * (s.n + nt) * 2.2204460492503131e-16 * std::max(scale, 1.0))) { vf::fail("threads.rounding.deflated_projection", key, vf::KS() << "nt=" << nt << " policy=" << pol << ": max |x - x_nt1| = " << worst << " (scale " << scale << ")"); break; }
                else vf::S().traces_validated += 1;
            }
            set_threads(1, 0);
        }
    }
    // ILU0: factorisation is serial -> bitwise; the triangular solve is bitwise among the serial counts (nt<4) and among the parallel ones
    {
        auto Ap = std::make_shared<Crs>(A);
        for (int cls = 0; cls < 2; ++cls) {
            std::string key = std::string("thr|ilu0_solve_") + (cls ? "parallel_class" : "serial_class") + "|" + in;
            if (!vf::take([&]{ return key; })) continue;
            Blob ref; bool have = false;
            vf::nontrivial(vf::hstr(key));
            for (int nt : NTS) for (int pol = 0; pol < NPOL; ++pol) {
                if ((nt >= 4) != (cls == 1)) continue;
                set_threads(nt, pol);
                relaxation::ilu0<B> ilu(*Ap, relaxation::ilu0<B>::params(), B::params());
                backend::numa_vector<double> u(z), t(s.n), xx(x);
                ilu.apply_pre(*Ap, xx, u, t);
                Blob b; serd(b, u);
                vf::count("runs");
                if (!have) { ref = b; have = true; }
                else if (!(b == ref)) { vf::fail("threads.bitwise.ilu0_solve", key, vf::KS() << "nt=" << nt << " policy=" << pol << " differs within the " << (cls ? "parallel" : "serial") << " class"); break; }
                else vf::S().traces_validated += 1;
            }
            // the parallel class called from inside an active region: the serial solve's answer up to summation-order rounding
            if (cls == 1 && have) {
                set_threads(1, 0);
                std::vector<double> sref;
                { relaxation::ilu0<B> ilu(*Ap, relaxation::ilu0<B>::params(), B::params()); backend::numa_vector<double> u(z), t(s.n), xx(x); ilu.apply_pre(*Ap, xx, u, t); sref.assign(u.data(), u.data() + s.n); }
                for (int nt : NTS_INSIDE) {
                    set_threads(nt, 0);
                    Blob got = run_inside_region([&]{ relaxation::ilu0<B> ilu(*Ap, relaxation::ilu0<B>::params(), B::params()); backend::numa_vector<double> u(z), t(s.n), xx(x); ilu.apply_pre(*Ap, xx, u, t); Blob b; serd(b, u); return b; });
                    vf::count("runs_inside_region");
                    double worst = 0, scale = 0;
                    bool shape = got.exc.empty() && got.vals.size() == sref.size();
                    if (shape) for (size_t i = 0; i < sref.size(); ++i) { worst = std::max(worst, std::abs(got.vals[i] - sref[i])); scale = std::max(scale, std::abs(sref[i])); }
                    if (!shape || !(worst <= 1e-9 * std::max(scale, 1.0))) { vf::fail("threads.inside_region.ilu0_solve", key, vf::KS() << "max_threads=" << nt << ", called by a member of an outer parallel region: " << (shape ? std::string(vf::KS() << "max |u - u_serial| = " << worst << " (scale " << scale << ")") : got.exc)); break; }
                    else vf::S().traces_validated += 1;
                }
            }
            set_threads(1, 0);
        }
    }
}

int main(int argc, char **argv) {
    vf::init(argc, argv, "C09");
    auto systems = c09::systems();
    vf::sample_str("thread-count enumeration: phase product on input " + systems[0].name + " for nt in {1,2,3,4,5,8,16,17,24,32}, outputs compared byte for byte with nt=1");
    if (vf::section("thr")) {
        for (auto &s : systems) kernels(s);
        // a matrix with STORED zeros on some diagonal positions (rows 16, 32, 40 of a 64x64 tridiagonal matrix): whatever the scaled
        // Gershgorin estimate makes of such rows, it is the same number for every thread count (where the chunk borders fall is not
        // an input)
        {
            const size_t n = 64; std::vector<ptrdiff_t> ptr(1, 0), col; std::vector<double> val;
            for (size_t i = 0; i < n; ++i) {
                if (i) { col.push_back(i - 1); val.push_back(-1.0 - 0.125 * (i % 3)); }
                col.push_back(i); val.push_back((i == 16 || i == 32 || i == 40) ? 0.0 : 2.5 + 0.25 * (i % 4));
                if (i + 1 < n) { col.push_back(i + 1); val.push_back(-1.0); }
                ptr.push_back((ptrdiff_t)col.size());
            }
            Crs Z(std::make_tuple(n, ptr, col, val));
            bitwise_phase("gershgorin_stored_zero_diagonal", "thr|gershgorin_stored_zero_diagonal|tridiag64_z16_32_40", false, [&]{ double r = backend::spectral_radius<true>(Z, 0), q = backend::spectral_radius<false>(Z, 0); Blob b; b.putv(&r, 1); b.putv(&q, 1); return b; });
        }
        vf::space("thread counts {1,2,3,4,5,8,16,17,24,32} x kernels/aggregation/transfer/relaxation phases x structured inputs");
    }
    if (vf::section("hier")) run_hier();
    return vf::finish();
}
