// C04 unit "blockval" -- smoothed aggregation on a block-VALUED matrix (builtin<static_matrix<double,2,2>>):
// the documented formula P = (I - omega D^-1 A_F) P_tent has D^-1 on the LEFT of the blocks of A_F.  For scalar and
// complex values the side does not matter, so the scalar units cannot see it; here every off-diagonal block is a
// shear that does not commute with the (non-symmetric) filtered diagonal block.
// Space: every labelled undirected graph on 2..5 nodes (thorough: ..6) x 2 value rules (structurally symmetric values /
// different blocks above and below the diagonal) x eps_strong {0, 0.08, 0.5} (weak edges are lumped into D) x
// (relax, estimate_spectral_radius) in {(1,no),(0.75,yes)}.  Aggregates, strength flags and P_tent are taken from the
// library's public classes (validated by unit "aggr"); omega as documented.
#include <amgcl/backend/builtin.hpp>
#include <amgcl/value_type/static_matrix.hpp>
#include <amgcl/coarsening/smoothed_aggregation.hpp>
#include <amgcl/coarsening/pointwise_aggregates.hpp>
#include <amgcl/coarsening/tentative_prolongation.hpp>
#include <cmath>
#include "vf.hpp"

using namespace amgcl;
typedef static_matrix<double, 2, 2> Blk;
typedef backend::builtin<Blk> Backend;
typedef backend::crs<Blk> Crs;

struct M2 { long double a[4]; };
static M2 m2(const Blk &b) { M2 r; for (int i = 0; i < 4; ++i) r.a[i] = b(i / 2, i % 2); return r; }
static M2 mul(const M2 &x, const M2 &y) { M2 r; for (int i = 0; i < 2; ++i) for (int j = 0; j < 2; ++j) r.a[i * 2 + j] = x.a[i * 2] * y.a[j] + x.a[i * 2 + 1] * y.a[2 + j]; return r; }
static M2 amul(const M2 &x, const M2 &y) { M2 r; for (int i = 0; i < 2; ++i) for (int j = 0; j < 2; ++j) r.a[i * 2 + j] = fabsl(x.a[i * 2] * y.a[j]) + fabsl(x.a[i * 2 + 1] * y.a[2 + j]); return r; }
static M2 inv(const M2 &x) { long double d = x.a[0] * x.a[3] - x.a[1] * x.a[2]; M2 r; r.a[0] = x.a[3] / d; r.a[1] = -x.a[1] / d; r.a[2] = -x.a[2] / d; r.a[3] = x.a[0] / d; return r; }
static std::string show(const Blk &b) { return vf::KS() << "[" << b(0, 0) << " " << b(0, 1) << ";" << b(1, 0) << " " << b(1, 1) << "]"; }

static int ubits(int n) { return n * (n - 1) / 2; }

// edge (i<j) number k: weight 1, or 1/16 for every third edge (weak for eps_strong 0.5 / 0.08 depending on the degrees)
static std::shared_ptr<Crs> make(int n, uint64_t mask, int rule, std::string &shown) {
    std::vector<std::vector<Blk>> a(n, std::vector<Blk>(n, math::zero<Blk>()));
    std::vector<std::vector<char>> st(n, std::vector<char>(n, 0));
    int k = 0;
    for (int i = 0; i < n; ++i) for (int j = i + 1; j < n; ++j, ++k) if ((mask >> k) & 1) {
        double w = (k % 3 == 2) ? 0.0625 : 1.0;
        Blk u, l;
        u(0, 0) = -w; u(0, 1) = -0.5 * w * (1 + (i + j) % 2); u(1, 0) = 0; u(1, 1) = -w;
        if (rule == 0) { l(0, 0) = u(0, 0); l(0, 1) = u(1, 0); l(1, 0) = u(0, 1); l(1, 1) = u(1, 1); }       // A_ji = A_ij^T
        else { l(0, 0) = -w; l(0, 1) = 0.25 * w; l(1, 0) = -0.75 * w; l(1, 1) = -0.5 * w; }
        a[i][j] = u; a[j][i] = l; st[i][j] = st[j][i] = 1;
    }
    for (int i = 0; i < n; ++i) {
        int deg = 0; for (int j = 0; j < n; ++j) deg += st[i][j];
        Blk d; d(0, 0) = 2 * deg + 2; d(0, 1) = 1; d(1, 0) = (rule ? -0.5 : 1); d(1, 1) = 2 * deg + 3 + (i % 2);
        a[i][i] = d; st[i][i] = 1;
    }
    auto A = std::make_shared<Crs>();
    A->set_size(n, n, true);
    for (int i = 0; i < n; ++i) for (int j = 0; j < n; ++j) if (st[i][j]) ++A->ptr[i + 1];
    A->scan_row_sizes(); A->set_nonzeros();
    vf::KS ks; ks << n << "x" << n << " blocks:";
    for (int i = 0; i < n; ++i) { ptrdiff_t h = A->ptr[i]; for (int j = 0; j < n; ++j) if (st[i][j]) { A->col[h] = j; A->val[h] = a[i][j]; ++h; ks << " (" << i << "," << j << ")=" << show(a[i][j]); } }
    shown = ks;
    return A;
}

static void sa_case(const std::string &key, const Crs &A, const std::string &Ashow, int rule, float eps, float relax, bool estimate) {
    const int n = (int)A.nrows;
    std::string at = vf::KS() << "rule=" << rule << " eps_strong=" << eps << " relax=" << relax << " estimate_spectral_radius=" << estimate << " A=" << Ashow;
    coarsening::pointwise_aggregates::params ap; ap.eps_strong = eps; ap.block_size = 1;
    std::vector<char> S; std::vector<ptrdiff_t> id; size_t count = 0; bool empty = false;
    try { coarsening::pointwise_aggregates g(A, ap, 0); S = g.strong_connection; id = g.id; count = g.count; } catch (const error::empty_level &) { empty = true; }

    coarsening::smoothed_aggregation<Backend>::params prm;
    prm.aggr.eps_strong = eps; prm.relax = relax; prm.estimate_spectral_radius = estimate; prm.power_iters = 0;
    coarsening::smoothed_aggregation<Backend> sa(prm);
    std::shared_ptr<Crs> P, R; bool threw = false;
    try { std::tie(P, R) = sa.transfer_operators(A); } catch (const error::empty_level &) { threw = true; }
    if (threw != empty) { vf::fail("sa.blockval.empty_level", key, at); return; }
    if (threw) { vf::count("sa_blockval_empty_level"); return; }

    coarsening::nullspace_params ns;
    auto Pt = coarsening::tentative_prolongation<Crs>(n, count, id, ns, 1);
    if (P->nrows != Pt->nrows || P->ncols != Pt->ncols) { vf::fail("sa.blockval.shape", key, at); return; }

    double omega = relax;
    if (estimate) omega *= static_cast<double>(4.0 / 3) / backend::spectral_radius<true>(A, 0);
    else omega *= static_cast<double>(2.0 / 3);

    const int nc = (int)Pt->ncols;
    const long double U = 1.1102230246251565e-16L;
    for (int i = 0; i < n; ++i) {
        M2 d = {{0, 0, 0, 0}}; int terms = 0; bool noncommuting_term = false;
        for (auto j = A.ptr[i]; j < A.ptr[i + 1]; ++j) { ++terms; if (A.col[j] == i || !S[j]) { M2 v = m2(A.val[j]); for (int e = 0; e < 4; ++e) d.a[e] += v.a[e]; } }
        long double det = d.a[0] * d.a[3] - d.a[1] * d.a[2];
        if (fabsl(det) < 0.5) { vf::count("sa_blockval_rows_skipped_singular_D"); continue; }
        M2 di = inv(d);
        long double cond = 0; { long double nd = 0, ni = 0; for (int e = 0; e < 4; ++e) { nd += fabsl(d.a[e]); ni += fabsl(di.a[e]); } cond = nd * ni; }
        std::vector<M2> ref(nc, M2{{0, 0, 0, 0}}), mag(nc, M2{{0, 0, 0, 0}}); std::vector<char> pat(nc, 0);
        for (auto j = A.ptr[i]; j < A.ptr[i + 1]; ++j) {
            int cj = (int)A.col[j];
            M2 m, am;
            if (cj == i) { m = M2{{1.0L - omega, 0, 0, 1.0L - omega}}; am = M2{{fabsl(1.0L - omega), 0, 0, fabsl(1.0L - omega)}}; }
            else if (S[j]) {
                M2 av = m2(A.val[j]);
                m = mul(di, av); am = amul(di, av);                         // D^-1 on the left
                M2 other = mul(av, di);
                for (int e = 0; e < 4; ++e) { if (fabsl(other.a[e] - m.a[e]) > 1e-6) noncommuting_term = true; m.a[e] *= -(long double)omega; am.a[e] *= fabsl((long double)omega); }
            } else continue;
            for (auto jp = Pt->ptr[cj]; jp < Pt->ptr[cj + 1]; ++jp) {
                int q = (int)Pt->col[jp]; M2 pv = m2(Pt->val[jp]);
                M2 t = mul(m, pv), at2 = amul(am, pv);
                for (int e = 0; e < 4; ++e) { ref[q].a[e] += t.a[e]; mag[q].a[e] += at2.a[e]; }
                pat[q] = 1;
            }
        }
        std::vector<char> have(nc, 0);
        for (auto jp = P->ptr[i]; jp < P->ptr[i + 1]; ++jp) {
            int q = (int)P->col[jp];
            if (q < 0 || q >= nc || have[q]) { vf::fail("sa.blockval.wellformed", key, vf::KS() << "row " << i << " column " << q << " out of range or repeated " << at); return; }
            have[q] = 1;
            if (!pat[q]) { vf::fail("sa.blockval.pattern", key, vf::KS() << "P(" << i << "," << q << ") stored but (I - omega D^-1 A_F) P_tent has no entry there " << at); return; }
            M2 got = m2(P->val[jp]);
            for (int e = 0; e < 4; ++e) {
                // inverse (cond), two block products, terms additions: (8 cond + terms + 16) u sum|terms|
                long double tol = (8 * cond + terms + 16) * U * (mag[q].a[0] + mag[q].a[1] + mag[q].a[2] + mag[q].a[3]);
                if (fabsl(got.a[e] - ref[q].a[e]) > tol) {
                    vf::fail("sa.blockval.formula", key, vf::KS() << "block P(" << i << "," << q << ") = " << show(P->val[jp]) << " but (I - omega D^-1 A_F) P_tent gives ["
                        << (double)ref[q].a[0] << " " << (double)ref[q].a[1] << ";" << (double)ref[q].a[2] << " " << (double)ref[q].a[3] << "] (omega=" << omega << ", D^-1 multiplies the blocks of A from the left) " << at);
                    return;
                }
            }
        }
        for (int q = 0; q < nc; ++q) if (pat[q] && !have[q]) { vf::fail("sa.blockval.pattern", key, vf::KS() << "P(" << i << "," << q << ") missing " << at); return; }
        vf::count("sa_blockval_rows_compared");
        if (noncommuting_term) vf::count("sa_blockval_rows_with_noncommuting_term");
    }
    // R = P^T block-transposed
    auto Rt = backend::transpose(*P);
    bool same = Rt->nrows == R->nrows && Rt->nnz == R->nnz;
    for (size_t q = 0; same && q < R->nnz; ++q) { same = R->col[q] == Rt->col[q]; for (int e = 0; e < 4 && same; ++e) same = R->val[q](e / 2, e % 2) == Rt->val[q](e / 2, e % 2); }
    if (!same) vf::fail("sa.blockval.restriction_is_transpose", key, at);
    vf::count("sa_blockval_cases");
}

int main(int argc, char **argv) {
    vf::init(argc, argv, "C04");
    vf::sample_str("blockval case: path 0-1-2 with 2x2 shear blocks A_01 = -[1 1;0 1], D_i = [2deg+2 1;1 2deg+3], eps_strong=0.08, relax=1: P(1,:) must equal (1-omega) P_tent(1,:) - omega D_1^-1 (A_10 P_tent(0,:) + A_12 P_tent(2,:))");
    if (vf::section("bv")) {
        int nmax = vf::thorough() ? 6 : 5;
        static const float EPS[3] = {0.0f, 0.08f, 0.5f};
        for (int n = 2; n <= nmax; ++n) {
            for (uint64_t mask = 0; mask < (1ull << ubits(n)); ++mask) {
                std::string key = vf::KS() << "bv|" << n << "|" << mask;
                if (!vf::take([&]{ return key; })) continue;
                for (int rule = 0; rule < 2; ++rule) {
                    std::string shown; auto A = make(n, mask, rule, shown);
                    for (int ie = 0; ie < 3; ++ie) {
                        vf::nontrivial(vf::hstr(vf::KS() << key << "|" << rule << "|" << ie));
                        sa_case(key, *A, shown, rule, EPS[ie], 1.0f, false);
                        sa_case(key, *A, shown, rule, EPS[ie], 0.75f, true);
                    }
                }
            }
            vf::space(vf::KS() << "smoothed aggregation on 2x2 block values: all 2^" << ubits(n) << " labelled undirected graphs on " << n << " nodes x 2 block value rules (non-commuting shears) x eps_strong {0,0.08,0.5} x (relax, estimate_spectral_radius) in {(1,no),(0.75,yes)}");
        }
    }
    return vf::finish();
}
