// C14 (units equiv_*) -- a solver composed at compile time and the same solver assembled through the
// run-time (property tree) interface give bitwise the same (iterations, residual, x).
//
// One executable per coarsening (define C14_COARSENING=<name>): amg<builtin, C, R> for the 9 relaxations
// under BiCGStab; one executable (define C14_SOLVERS) for the 9 iterative solvers, the preconditioner
// classes relaxation (9 smoothers) / dummy / nested, and the near-nullspace pointer parameter.
//
// For every composition: default parameters, and every value parameter reachable from
// make_solver<...>::params (enumerated through the scanned table, C14_table.inc) set to two
// non-default values -- on the typed side by assigning the struct member, on the run-time side by
// putting the same dotted key into the property tree.  Three systems.
//
// key:  eq|<composition>|<system>|<parameter path or "-">|<value index>
#include "C14_common.hpp"
#include "C01_common.hpp"
#include "vf.hpp"
#include <functional>
#include <tuple>

using c14::ptree;
using c14::B;
namespace rt = amgcl::runtime;

typedef amgcl::make_solver<rt::preconditioner<B>, rt::solver::wrapper<B>> RuntimeSolver;

struct Sys { std::string name; sg::Crs<double> A; std::vector<double> f; };

static const std::vector<Sys>& systems() {
    static std::vector<Sys> S;
    if (S.empty()) {
        { Sys s; s.name = "diff2d_12x12"; s.A = sg::grid_diffusion(12, 12, 1, sg::coef_mask(sg::COEF_UNIFORM, 1.0)); S.push_back(s); }
        { Sys s; s.name = "diff3d_6x6x4_contrast100_aniso"; s.A = sg::grid_diffusion(6, 6, 4, sg::coef_mask(sg::COEF_INCLUSION, 100.0, 6, 6, 4), 1.0, 0.1, 1.0); S.push_back(s); }
        { Sys s; s.name = "convdiff_12x6_pe2"; s.A = sg::convection_diffusion(12, 6, 2.0, 1.0, 0.5); S.push_back(s); }
        if (vf::thorough()) {
            { Sys s; s.name = "diff2d_20x18_stripes10"; s.A = sg::grid_diffusion(20, 18, 1, sg::coef_mask(sg::COEF_STRIPE2_X, 10.0)); S.push_back(s); }
            { Sys s; s.name = "diff1d_60"; s.A = sg::grid_diffusion(60, 1, 1, sg::coef_mask(sg::COEF_UNIFORM, 1.0)); S.push_back(s); }
            { Sys s; s.name = "diff3d_6x6x10_checker1000"; s.A = sg::grid_diffusion(6, 6, 10, sg::coef_mask(sg::COEF_CHECKER, 1000.0)); S.push_back(s); }
            { Sys s; s.name = "convdiff_18x12_pe10"; s.A = sg::convection_diffusion(18, 12, 10.0, -0.5, 1.0); S.push_back(s); }
        }
        for (auto &s : S) s.f = sg::rhs(sg::RHS_A_RAMP, s.A);
    }
    return S;
}

struct Outcome {
    bool threw = false; std::string what;
    size_t iters = 0; double resid = 0; std::vector<double> x;
    // second call on the same object, form S(A2, rhs, x): the iteration runs on the matrix GIVEN in the call (A2 = A with a
    // position dependent diagonal shift), preconditioned by the object built for A
    bool threw2 = false; std::string what2; size_t iters2 = 0; double resid2 = 0; std::vector<double> x2;
    std::string hier;      // levels / unknowns / nonzeros lines of the hierarchy dump ("" when not an AMG)
    int levels = 0;
    bool same(const Outcome &o, std::string &why) const {
        if (threw != o.threw) { why = std::string("one side raised: ") + (threw ? what : o.what); return false; }
        if (threw) { if (what != o.what) { why = "different exceptions: " + what + " / " + o.what; return false; } return true; }
        if (iters != o.iters) { why = vf::KS() << "iterations " << iters << " vs " << o.iters; return false; }
        // bitwise; two NaNs are equal whatever their sign / payload bits (not a property of the value)
        auto same_dbl = [](double a, double b) { return (a != a && b != b) || !std::memcmp(&a, &b, sizeof(double)); };
        if (!same_dbl(resid, o.resid)) { why = vf::KS() << std::setprecision(17) << "residual " << resid << " vs " << o.resid; return false; }
        size_t i = 0; while (i < x.size() && i < o.x.size() && same_dbl(x[i], o.x[i])) ++i;
        if (x.size() != o.x.size() || i < x.size()) {
            why = vf::KS() << std::setprecision(17) << "x differs first at " << i << ": " << (i < x.size() ? x[i] : 0.0) << " vs " << (i < o.x.size() ? o.x[i] : 0.0);
            return false;
        }
        if (threw2 != o.threw2 || (threw2 && what2 != o.what2)) { why = "call form S(A2, rhs, x): exceptions differ: '" + what2 + "' / '" + o.what2 + "'"; return false; }
        if (!threw2) {
            if (iters2 != o.iters2) { why = vf::KS() << "call form S(A2, rhs, x): iterations " << iters2 << " vs " << o.iters2; return false; }
            if (!same_dbl(resid2, o.resid2)) { why = vf::KS() << std::setprecision(17) << "call form S(A2, rhs, x): residual " << resid2 << " vs " << o.resid2; return false; }
            size_t q = 0; while (q < x2.size() && q < o.x2.size() && same_dbl(x2[q], o.x2[q])) ++q;
            if (x2.size() != o.x2.size() || q < x2.size()) { why = vf::KS() << std::setprecision(17) << "call form S(A2, rhs, x): x differs first at " << q << ": " << (q < x2.size() ? x2[q] : 0.0) << " vs " << (q < o.x2.size() ? o.x2[q] : 0.0); return false; }
        }
        return true;
    }
};

static std::string hier_of(const std::string &dump, int &levels) {
    // keep "Number of levels" and the level / unknowns / nonzeros columns; drop the memory figures
    std::istringstream in(dump); std::string l, out; levels = 0;
    while (std::getline(in, l)) {
        if (l.compare(0, 17, "Number of levels:") == 0) { levels = std::atoi(l.c_str() + 17); out += l + ";"; continue; }
        std::istringstream ls(l); long a, b, c;
        if (ls >> a >> b >> c) out += vf::KS() << a << ":" << b << ":" << c << ";";
    }
    return out;
}

template <class P> struct is_amg : std::false_type {};
template <template <class> class C, template <class> class R> struct is_amg<amgcl::amg<B, C, R>> : std::true_type {};
template <> struct is_amg<rt::preconditioner<B>> : std::true_type {};   // prints the hierarchy when class == amg

template <class Solver, class Params>
static Outcome run_one(const Sys &s, const Params &prm) {
    Outcome o;
    try {
        size_t n = s.A.n;
        Solver S(std::tie(n, s.A.ptr, s.A.col, s.A.val), prm);
        o.x.assign(n, 0.0);
        std::tie(o.iters, o.resid) = S(s.f, o.x);
        {
            std::vector<double> val2 = s.A.val;
            for (size_t i = 0; i < n; ++i) for (auto j = s.A.ptr[i]; j < s.A.ptr[i + 1]; ++j) if ((size_t)s.A.col[j] == i) val2[j] *= 1.0 + 0.0625 * (1 + i % 3);
            o.x2.assign(n, 0.0);
            try { std::tie(o.iters2, o.resid2) = S(std::tie(n, s.A.ptr, s.A.col, val2), s.f, o.x2); }
            catch (const std::exception &e) { o.threw2 = true; o.what2 = e.what(); o.x2.clear(); }
        }
        if (is_amg<typename std::decay<decltype(S.precond())>::type>::value) {
            std::ostringstream os; os << S.precond(); o.hier = hier_of(os.str(), o.levels);
        }
    } catch (const std::exception &e) { o.threw = true; o.what = e.what(); o.x.clear(); }
    return o;
}

// ---- enumerate the value parameters of a typed params structure through the table -------------
template <class Params>
struct Leaf {
    std::string path;
    int nvalues = 0;
    std::function<void(Params &, int)> set;
    std::function<void(ptree &, int)> put;
    std::function<std::string(int)> show;
};

template <class T, class = void> struct has_coarse_enough : std::false_type {};
template <class T> struct has_coarse_enough<T, decltype((void)std::declval<T&>().coarse_enough)> : std::true_type {};

template <class Params>
struct Sweep {
    std::vector<Leaf<Params>> leaves;
    std::vector<std::string> levels;      // dotted prefixes of every nesting level, "" = make_solver itself
    template <class Acc> struct Level {
        Sweep &sw; Acc acc; std::string prefix;
        template <class FA> void value(FA fa, const c14::Meta &m) {
            if (std::string(m.sid) == "coarsening_tentative_prolongation_nullspace_params") return;   // needs B: hand-written case
            auto full = [a = acc, fa](Params &p) -> decltype(auto) { return fa(a(p)); };
            typedef typename std::decay<decltype(full(std::declval<Params&>()))>::type T;
            Params d;
            auto vals = c14::Values<T>::get(full(d), m.name, false);
            Leaf<Params> L;
            L.path = prefix + m.name;
            L.nvalues = (int)vals.size();
            L.set = [full, vals](Params &p, int k) { full(p) = vals[k]; };
            std::string path = L.path;
            L.put = [path, vals](ptree &t, int k) { T v = vals[k]; t.put(path, v); };
            L.show = [vals](int k) { T v = vals[k]; return c14::show(v); };
            sw.leaves.push_back(L);
        }
        template <class FA> void child(FA fa, const c14::Meta &m) {
            typedef typename std::decay<decltype(fa(acc(std::declval<Params&>())))>::type CT;
            auto a2 = [a = acc, fa](Params &p) -> CT& { return fa(a(p)); };
            Level<decltype(a2)> sub{sw, a2, prefix + m.name + "."};
            sw.levels.push_back(sub.prefix);
            CT tmp;
            if constexpr (has_coarse_enough<CT>::value) c14::fields_amg(tmp, sub);    // amg<B,C,R>::params for any C, R
            else c14::c14_fields(tmp, sub);
        }
        template <class FA> void pointer(FA, const c14::Meta &) {}
        template <class FA> void vector(FA, const c14::Meta &) {}
        void key(const c14::Meta &) {}
        void unparsed(const char *, const char *) {}
    };
    Sweep() {
        auto id = [](Params &p) -> Params& { return p; };
        Level<decltype(id)> top{*this, id, ""};
        levels.push_back("");
        Params tmp;
        c14::fields_make_solver(tmp, top);
    }
};

// the typed structures do not know the component selectors of the run-time interface
static void erase_selectors(ptree &p) {
    p.erase("type"); p.erase("class");
    for (auto &kv : p) erase_selectors(kv.second);
}
static void selector_paths(const ptree &p, const std::string &pre, std::vector<std::string> &out) {
    for (auto &kv : p) {
        if (kv.first == "type" || kv.first == "class") out.push_back(pre + kv.first);
        selector_paths(kv.second, pre + kv.first + ".", out);
    }
}

// ---- one composition ---------------------------------------------------------------------------
template <class Typed>
static void composition(const std::string &comp, const ptree &rt_base,
        const std::function<void(typename Typed::params &)> &typed_base)
{
    typedef typename Typed::params Params;
    static const Sweep<Params> sweep;
    vf::count("compositions");
    vf::count("value_parameters_swept", (long long)sweep.leaves.size());
    for (const Sys &s : systems()) {
        Outcome dflt; bool have_dflt = false;
        for (int li = -1; li < (int)sweep.leaves.size(); ++li) {
            int nv = li < 0 ? 1 : sweep.leaves[li].nvalues;
            for (int k = 0; k < nv; ++k) {
                std::string key = vf::KS() << "eq|" << comp << "|" << s.name << "|" << (li < 0 ? "-" : sweep.leaves[li].path) << "|" << k;
                if (!vf::take([&]{ return key; })) continue;
                Params tp; typed_base(tp);
                ptree rp = rt_base;
                if (li >= 0) { sweep.leaves[li].set(tp, k); sweep.leaves[li].put(rp, k); }
                c14::unknown_log().clear();
                Outcome a = run_one<Typed>(s, tp);
                Outcome b = run_one<RuntimeSolver>(s, rp);
                std::string why;
                {   // third way: the typed structure imported from the same tree (without the component selectors)
                    ptree tpt = rp; erase_selectors(tpt);
                    Outcome c; try { Params tp2(tpt); c = run_one<Typed>(s, tp2); } catch (const std::exception &e) { c.threw = true; c.what = e.what(); }
                    std::string w3;
                    if (!a.same(c, w3)) vf::fail("equiv.typed_from_ptree", key, comp + " on " + s.name + ": typed params assigned member-wise vs typed params(ptree): " + w3 + "; tree " + c14::dump(tpt));
                }
                std::string what = li < 0 ? std::string("default parameters") : sweep.leaves[li].path + "=" + sweep.leaves[li].show(k);
                if (!a.same(b, why))
                    vf::fail("equiv.result", key, comp + " on " + s.name + " with " + what + ": typed vs run-time " + why + "; run-time tree " + c14::dump(rp));
                else if (!a.hier.empty() && !b.hier.empty() && a.hier != b.hier)
                    vf::fail("equiv.hierarchy", key, comp + " on " + s.name + " with " + what + ": " + a.hier + " vs " + b.hier);
                if (!c14::unknown_log().empty())
                    vf::fail("unknown.false_report", key, comp + " with " + what + ": run-time construction reported unknown key " + c14::unknown_log()[0]);
                if (a.threw) vf::count("both_sides_raised");
                else {
                    if (a.levels >= 2) vf::count("amg_levels_ge_2");
                    if (a.iters >= 1) vf::nontrivial(vf::hstr(key));
                    // did the parameter change the result (same shard only: the default case of this system may belong to another shard)
                    if (li < 0) { dflt = a; have_dflt = true; }
                    else {
                        if (!have_dflt) { Params t0; typed_base(t0); dflt = run_one<Typed>(s, t0); have_dflt = true; }
                        std::string w2;
                        if (!a.same(dflt, w2)) vf::count("parameter_changed_the_result"); else vf::count("parameter_did_not_change_the_result");
                    }
                }
            }
        }
    }

    // unknown key at every nesting level of the run-time tree -> reported through the hook (and nothing else is)
    {
        const Sys &s = systems()[0];
        for (const std::string &pre : sweep.levels) {
            std::string key = vf::KS() << "unk|" << comp << "|" << pre;
            if (!vf::take([&]{ return key; })) continue;
            ptree rp = rt_base;
            rp.put(pre + "c14_no_such_key", 1);
            c14::unknown_log().clear();
            Outcome b = run_one<RuntimeSolver>(s, rp);
            bool ok = !c14::unknown_log().empty();
            std::string seen;
            for (auto &u : c14::unknown_log()) { ok &= (u == "c14_no_such_key"); if (seen.size() < 200) seen += u + ","; }
            if (b.threw) vf::fail("unknown.exception", key, comp + ": key " + pre + "c14_no_such_key made the construction raise: " + b.what);
            else if (!ok) vf::fail("unknown.not_reported", key, comp + ": run-time key '" + pre + "c14_no_such_key' -> hook saw [" + seen + "]");
            vf::count("runtime_unknown_key_cases");
            // an unknown SECTION (a key that has children: a misspelt 'relax', 'aggr', ... or any extra subtree) belongs to no
            // component: its name has to reach the hook as well, otherwise everything inside it is dropped silently
            {
                ptree rs = rt_base;
                rs.put(pre + "c14_no_such_section.inner", 1);
                c14::unknown_log().clear();
                Outcome b2 = run_one<RuntimeSolver>(s, rs);
                bool ok2 = !c14::unknown_log().empty();
                std::string seen2;
                for (auto &u : c14::unknown_log()) { ok2 &= (u == "c14_no_such_section"); if (seen2.size() < 200) seen2 += u + ","; }
                if (b2.threw) vf::fail("unknown.exception", key, comp + ": section " + pre + "c14_no_such_section made the construction raise: " + b2.what);
                else if (!ok2) vf::fail("unknown.section_not_reported", key, comp + ": run-time section '" + pre + "c14_no_such_section' (with one child) -> hook saw [" + seen2 + "]");
                vf::count("runtime_unknown_section_cases");
            }
            vf::nontrivial(vf::hstr(key));
        }
        std::vector<std::string> sel; selector_paths(rt_base, "", sel);
        for (const std::string &sp : sel) {
            std::string key = vf::KS() << "badenum|" << comp << "|" << sp;
            if (!vf::take([&]{ return key; })) continue;
            ptree rp = rt_base;
            rp.put(sp, "c14_bogus");
            Outcome b = run_one<RuntimeSolver>(s, rp);
            if (!b.threw) vf::fail("enum.invalid_accepted", key, comp + ": " + sp + "=c14_bogus was accepted by the run-time interface");
            vf::count("runtime_invalid_selector_cases");
            vf::nontrivial(vf::hstr(key));
        }
    }
}

static ptree rt_tree(std::initializer_list<std::pair<const char *, const char *>> kv) {
    ptree p; for (auto &e : kv) p.put(e.first, e.second); return p;
}

template <class E> static std::string ename(E e) { std::ostringstream o; o << e; return o.str(); }

// ---- unit variants -----------------------------------------------------------------------------
#ifdef C14_COARSENING
#define C14_STR2(x) #x
#define C14_STR(x) C14_STR2(x)
template <template <class> class R>
static void amg_combo(const std::string &rname) {
    typedef amgcl::amg<B, amgcl::coarsening::C14_COARSENING, R> P;
    typedef amgcl::make_solver<P, amgcl::solver::bicgstab<B>> Typed;
    std::string cname = C14_STR(C14_COARSENING);
    ptree base = rt_tree({{"precond.class", "amg"}, {"solver.type", "bicgstab"}, {"precond.coarse_enough", "10"}});
    base.put("precond.coarsening.type", cname);
    base.put("precond.relax.type", rname);
    composition<Typed>("amg(" + cname + "," + rname + ")+bicgstab", base,
            [](typename Typed::params &p) { p.precond.coarse_enough = 10; });
}

static void run_unit() {
    // the coarsening of this executable must be an enumerated run-time name
    bool found = false;
    for (auto &c : c14::enum_items(rt::coarsening::type())) found |= c.second == C14_STR(C14_COARSENING);
    if (!found) vf::fail("equiv.component_unmapped", "eq|-", std::string("coarsening ") + C14_STR(C14_COARSENING) + " is not an enumerator of runtime::coarsening::type");
    for (auto &r : c14::enum_items(rt::relaxation::type())) {
        switch (r.first) {
            case rt::relaxation::gauss_seidel:  amg_combo<amgcl::relaxation::gauss_seidel>(r.second); break;
            case rt::relaxation::ilu0:          amg_combo<amgcl::relaxation::ilu0>(r.second); break;
            case rt::relaxation::iluk:          amg_combo<amgcl::relaxation::iluk>(r.second); break;
            case rt::relaxation::ilup:          amg_combo<amgcl::relaxation::ilup>(r.second); break;
            case rt::relaxation::ilut:          amg_combo<amgcl::relaxation::ilut>(r.second); break;
            case rt::relaxation::damped_jacobi: amg_combo<amgcl::relaxation::damped_jacobi>(r.second); break;
            case rt::relaxation::spai0:         amg_combo<amgcl::relaxation::spai0>(r.second); break;
            case rt::relaxation::spai1:         amg_combo<amgcl::relaxation::spai1>(r.second); break;
            case rt::relaxation::chebyshev:     amg_combo<amgcl::relaxation::chebyshev>(r.second); break;
            default: vf::fail("equiv.component_unmapped", "eq|-", "relaxation " + r.second + " has no typed counterpart in the harness");
        }
    }
    vf::space(std::string("amg<builtin<double>, ") + C14_STR(C14_COARSENING) + ", R> + BiCGStab for every enumerated relaxation R x 3 systems x {defaults; every value parameter of make_solver<...>::params x two non-default values}");
}
#endif

#ifdef C14_SOLVERS
template <template <class, class> class S>
static void solver_combo(const std::string &sname) {
    typedef amgcl::make_solver<c14::AMG, S<B, amgcl::solver::detail::default_inner_product>> Typed;
    ptree base = rt_tree({{"precond.class", "amg"}, {"precond.coarsening.type", "smoothed_aggregation"}, {"precond.relax.type", "spai0"}, {"precond.coarse_enough", "10"}});
    base.put("solver.type", sname);
    composition<Typed>("amg(smoothed_aggregation,spai0)+" + sname, base, [](typename Typed::params &p) { p.precond.coarse_enough = 10; });
}

template <template <class> class R>
static void relax_precond_combo(const std::string &rname) {
    typedef amgcl::make_solver<amgcl::relaxation::as_preconditioner<B, R>, amgcl::solver::bicgstab<B>> Typed;
    ptree base = rt_tree({{"precond.class", "relaxation"}, {"solver.type", "bicgstab"}});
    base.put("precond.type", rname);
    composition<Typed>("relaxation(" + rname + ")+bicgstab", base, [](typename Typed::params &) {});
}

static void nullspace_cases() {
    // near-nullspace vectors travel as (cols, rows, B pointer) on the run-time side and as (cols, B vector) on the typed side
    typedef amgcl::make_solver<c14::AMG, amgcl::solver::cg<B>> Typed;
    for (const Sys &s : systems()) for (int cols = 1; cols <= 2; ++cols) {
        std::string key = vf::KS() << "eq|amg(smoothed_aggregation,spai0)+cg|" << s.name << "|precond.coarsening.nullspace|" << cols;
        if (!vf::take([&]{ return key; })) continue;
        int n = s.A.n;
        std::vector<double> Bv(n * cols);
        for (int i = 0; i < n; ++i) { Bv[i * cols] = 1.0; if (cols > 1) Bv[i * cols + 1] = (double)(i % 12) / 12; }
        Typed::params tp; tp.precond.coarse_enough = 10;
        tp.precond.coarsening.nullspace.cols = cols; tp.precond.coarsening.nullspace.B = Bv;
        ptree rp = rt_tree({{"precond.class", "amg"}, {"precond.coarsening.type", "smoothed_aggregation"}, {"precond.relax.type", "spai0"}, {"precond.coarse_enough", "10"}, {"solver.type", "cg"}});
        rp.put("precond.coarsening.nullspace.cols", cols);
        rp.put("precond.coarsening.nullspace.rows", n);
        rp.put("precond.coarsening.nullspace.B", Bv.data());
        c14::unknown_log().clear();
        Outcome a = run_one<Typed>(s, tp), b = run_one<RuntimeSolver>(s, rp);
        std::string why;
        if (!a.same(b, why)) vf::fail("equiv.result", key, vf::KS() << "near-nullspace with " << cols << " vectors on " << s.name << ": " << why);
        if (!c14::unknown_log().empty()) vf::fail("unknown.false_report", key, c14::unknown_log()[0]);
        if (!a.threw && a.levels >= 2) { vf::count("amg_levels_ge_2"); vf::nontrivial(vf::hstr(key)); }
        vf::count("nullspace_cases");
    }
}

static void run_unit() {
    for (auto &sv : c14::enum_items(rt::solver::type())) {
        switch (sv.first) {
            case rt::solver::cg:         solver_combo<amgcl::solver::cg>(sv.second); break;
            case rt::solver::bicgstab:   solver_combo<amgcl::solver::bicgstab>(sv.second); break;
            case rt::solver::bicgstabl:  solver_combo<amgcl::solver::bicgstabl>(sv.second); break;
            case rt::solver::gmres:      solver_combo<amgcl::solver::gmres>(sv.second); break;
            case rt::solver::lgmres:     solver_combo<amgcl::solver::lgmres>(sv.second); break;
            case rt::solver::fgmres:     solver_combo<amgcl::solver::fgmres>(sv.second); break;
            case rt::solver::idrs:       solver_combo<amgcl::solver::idrs>(sv.second); break;
            case rt::solver::richardson: solver_combo<amgcl::solver::richardson>(sv.second); break;
            case rt::solver::preonly:    solver_combo<amgcl::solver::preonly>(sv.second); break;
            default: vf::fail("equiv.component_unmapped", "eq|-", "solver " + sv.second + " has no typed counterpart in the harness");
        }
    }
    vf::space("amg<builtin<double>, smoothed_aggregation, spai0> + every enumerated iterative solver x 3 systems x {defaults; every value parameter x two non-default values}");
    for (auto &pc : c14::enum_items(rt::precond_class::type())) {
        switch (pc.first) {
            case rt::precond_class::amg: break;   // all other compositions
            case rt::precond_class::relaxation:
                for (auto &r : c14::enum_items(rt::relaxation::type())) {
                    switch (r.first) {
                        case rt::relaxation::gauss_seidel:  relax_precond_combo<amgcl::relaxation::gauss_seidel>(r.second); break;
                        case rt::relaxation::ilu0:          relax_precond_combo<amgcl::relaxation::ilu0>(r.second); break;
                        case rt::relaxation::iluk:          relax_precond_combo<amgcl::relaxation::iluk>(r.second); break;
                        case rt::relaxation::ilup:          relax_precond_combo<amgcl::relaxation::ilup>(r.second); break;
                        case rt::relaxation::ilut:          relax_precond_combo<amgcl::relaxation::ilut>(r.second); break;
                        case rt::relaxation::damped_jacobi: relax_precond_combo<amgcl::relaxation::damped_jacobi>(r.second); break;
                        case rt::relaxation::spai0:         relax_precond_combo<amgcl::relaxation::spai0>(r.second); break;
                        case rt::relaxation::spai1:         relax_precond_combo<amgcl::relaxation::spai1>(r.second); break;
                        case rt::relaxation::chebyshev:     relax_precond_combo<amgcl::relaxation::chebyshev>(r.second); break;
                        default: vf::fail("equiv.component_unmapped", "eq|-", "relaxation " + r.second);
                    }
                }
                break;
            case rt::precond_class::dummy: {
                typedef amgcl::make_solver<amgcl::preconditioner::dummy<B>, amgcl::solver::bicgstab<B>> Typed;
                composition<Typed>("dummy+bicgstab", rt_tree({{"precond.class", "dummy"}, {"solver.type", "bicgstab"}}), [](Typed::params &) {});
            } break;
            case rt::precond_class::nested: {
                typedef amgcl::make_solver<c14::MS, amgcl::solver::fgmres<B>> Typed;     // MS = make_solver<amg<SA,spai0>, cg>
                composition<Typed>("nested(amg(smoothed_aggregation,spai0)+cg)+fgmres",
                        rt_tree({{"precond.class", "nested"}, {"solver.type", "fgmres"}, {"precond.solver.type", "cg"}, {"precond.solver.maxiter", "3"},
                                 {"precond.precond.class", "amg"}, {"precond.precond.coarsening.type", "smoothed_aggregation"},
                                 {"precond.precond.relax.type", "spai0"}, {"precond.precond.coarse_enough", "10"}}),
                        [](Typed::params &p) { p.precond.precond.coarse_enough = 10; p.precond.solver.maxiter = 3; });
            } break;
            default: vf::fail("equiv.component_unmapped", "eq|-", "preconditioner class " + pc.second + " has no typed counterpart in the harness");
        }
    }
    vf::space("preconditioner classes relaxation (every enumerated smoother), dummy, nested (amg+cg inside fgmres) x 3 systems x {defaults; every value parameter x two non-default values}");
    nullspace_cases();
    vf::space("near-nullspace vectors (1 and 2 columns) through the pointer parameter x 3 systems");
}
#endif

int main(int argc, char **argv) {
    vf::init(argc, argv, "C14");
    // `verbose` parameters print to std::cout: silence it (results are written to --out)
    struct NullBuf : std::streambuf { int overflow(int c) override { return c; } } sink;
    std::streambuf *old = std::cout.rdbuf(&sink);
    if (vf::section("eq") || vf::section("unk") || vf::section("badenum")) run_unit();
    std::cout.rdbuf(old);
    { const Sys &s = systems()[2]; vf::sample_str(vf::KS() << "system " << s.name << ": n=" << s.A.n << " nnz=" << s.A.nnz() << ", f = A*ramp"); }
    return vf::finish();
}
