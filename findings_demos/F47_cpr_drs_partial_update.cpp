// cpr_drs with SCALAR input: partial_update(K, /*update_transfer_ops=*/true)
#include <amgcl/backend/builtin.hpp>
#include <amgcl/adapter/crs_tuple.hpp>
#include <amgcl/amg.hpp>
#include <amgcl/coarsening/aggregation.hpp>
#include <amgcl/relaxation/spai0.hpp>
#include <amgcl/relaxation/as_preconditioner.hpp>
#include <amgcl/preconditioner/cpr_drs.hpp>
#include <amgcl/preconditioner/cpr.hpp>
#include <iostream>
using namespace amgcl;
typedef backend::builtin<double> B;
typedef amg<B, coarsening::aggregation, relaxation::spai0> PP;
typedef relaxation::as_preconditioner<B, relaxation::spai0> SP;
int main(int argc, char **argv) {
    int nb = 6, bs = 2, n = nb * bs; bool transfer = argc > 1 ? atoi(argv[1]) : 1; bool drs = argc > 2 ? atoi(argv[2]) : 1;
    std::vector<ptrdiff_t> ptr{0}, col; std::vector<double> val;
    for (int I = 0; I < nb; ++I) for (int i = 0; i < bs; ++i) {
        for (int J = std::max(0, I - 1); J <= std::min(nb - 1, I + 1); ++J) for (int j = 0; j < bs; ++j) {
            double v = (I == J) ? (i == j ? 4.0 + i : 0.5) : (i == j ? -1.0 : -0.125);
            col.push_back(J * bs + j); val.push_back(v);
        }
        ptr.push_back(col.size());
    }
    auto A = std::make_tuple((size_t)n, ptr, col, val);
    std::vector<double> f(n, 1.0), x(n, 0.0);
    backend::numa_vector<double> F(f), X(x);
    if (drs) {
        preconditioner::cpr_drs<PP, SP>::params prm; prm.block_size = bs;
        preconditioner::cpr_drs<PP, SP> P(A, prm);
        P.apply(F, X); std::cout << "built, x[0]=" << X[0] << std::endl;
        for (auto &v : val) v *= 1.25;
        P.partial_update(std::make_tuple((size_t)n, ptr, col, val), transfer);
        P.apply(F, X); std::cout << "cpr_drs partial_update(update_transfer_ops=" << transfer << ") ok, x[0]=" << X[0] << std::endl;
    } else {
        preconditioner::cpr<PP, SP>::params prm; prm.block_size = bs;
        preconditioner::cpr<PP, SP> P(A, prm);
        P.apply(F, X); std::cout << "built, x[0]=" << X[0] << std::endl;
        for (auto &v : val) v *= 1.25;
        P.partial_update(std::make_tuple((size_t)n, ptr, col, val), transfer);
        P.apply(F, X); std::cout << "cpr partial_update(update_transfer_ops=" << transfer << ") ok, x[0]=" << X[0] << std::endl;
    }
}
