#include <amgcl/backend/builtin.hpp>
#include <amgcl/adapter/crs_tuple.hpp>
#include <amgcl/amg.hpp>
#include <amgcl/coarsening/runtime.hpp>
#include <amgcl/relaxation/runtime.hpp>
#include <boost/property_tree/ptree.hpp>
#include <Eigen/Dense>
#include <iostream>
using namespace amgcl;
typedef backend::builtin<double> B;
typedef amg<B, runtime::coarsening::wrapper, runtime::relaxation::wrapper> AMG;
static double rho(int n, uint64_t code, double oi, int ncycle, int npre, int npost, const char *coars, int *levels) {
    Eigen::MatrixXd d = Eigen::MatrixXd::Zero(n, n); uint64_t c = code;
    for (int i = 0; i < n; ++i) for (int j = i + 1; j < n; ++j) { int w = c % 3; c /= 3; if (w) d(i, j) = d(j, i) = (w == 1 ? -1.0 : -100.0); }
    for (int i = 0; i < n; ++i) { double s = (i == 0 ? 1 : 0); for (int j = 0; j < n; ++j) if (j != i) s -= d(i, j); d(i, i) = s; }
    std::vector<ptrdiff_t> ptr{0}, col; std::vector<double> val;
    for (int i = 0; i < n; ++i) { for (int j = 0; j < n; ++j) if (d(i, j) != 0) { col.push_back(j); val.push_back(d(i, j)); } ptr.push_back(col.size()); }
    boost::property_tree::ptree p;
    p.put("coarsening.type", coars); p.put("relax.type", "chebyshev");
    if (oi > 0) p.put("coarsening.over_interp", oi);
    p.put("coarse_enough", 2); p.put("direct_coarse", false);
    p.put("ncycle", ncycle); p.put("npre", npre); p.put("npost", npost); p.put("pre_cycles", 1);
    AMG a(std::make_tuple((size_t)n, ptr, col, val), p);
    *levels = 0; { std::ostringstream os; os << a; std::string s = os.str(); size_t q = s.find("Number of levels:"); if (q != std::string::npos) *levels = atoi(s.c_str() + q + 17); }
    Eigen::MatrixXd Bm(n, n);
    backend::numa_vector<double> f(n), x(n);
    for (int j = 0; j < n; ++j) { for (int i = 0; i < n; ++i) f[i] = i == j; a.apply(f, x); for (int i = 0; i < n; ++i) Bm(i, j) = x[i]; }
    Eigen::MatrixXd E = Eigen::MatrixXd::Identity(n, n) - Bm * d;
    return Eigen::EigenSolver<Eigen::MatrixXd>(E).eigenvalues().cwiseAbs().maxCoeff();
}
int main() {
    struct K { int n; uint64_t code; } keys[] = {{4, 80}, {3, 26}, {4, 160}, {4, 548}, {4, 26}, {4, 74}};
    for (auto k : keys) {
        int lv;
        std::cout << "wl" << k.n << "c" << k.code << " aggregation cheb ce2_smooth nc2 pre1 post2:";
        for (double oi : {-1.0, 1.5, 1.25, 1.0}) std::cout << "  over_interp=" << (oi < 0 ? std::string("default") : std::to_string(oi).substr(0, 4)) << " rho=" << rho(k.n, k.code, oi, 2, 1, 2, "aggregation", &lv) << " (L" << lv << ")";
        std::cout << "\n   nc1: default rho=" << rho(k.n, k.code, -1, 1, 1, 2, "aggregation", &lv) << "  oi=1 rho=" << rho(k.n, k.code, 1.0, 1, 1, 2, "aggregation", &lv);
        std::cout << "   pre2/post1 nc2 default rho=" << rho(k.n, k.code, -1, 2, 2, 1, "aggregation", &lv) << "   pre1/post1 nc2 default rho=" << rho(k.n, k.code, -1, 2, 1, 1, "aggregation", &lv) << "\n";
    }
}
