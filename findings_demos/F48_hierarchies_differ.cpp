// complex emin hierarchy vs the same system as 2x2 real blocks [re -im; im re]
#include <complex>
#include <iostream>
#include <amgcl/backend/builtin.hpp>
#include <amgcl/value_type/complex.hpp>
#include <amgcl/value_type/static_matrix.hpp>
#include <amgcl/adapter/crs_tuple.hpp>
#include <amgcl/coarsening/smoothed_aggr_emin.hpp>
#include <amgcl/coarsening/smoothed_aggregation.hpp>
using namespace amgcl;
typedef std::complex<double> cplx; typedef static_matrix<double,2,2> Blk;
static Blk blk(cplx z) { Blk b; b(0,0) = z.real(); b(0,1) = -z.imag(); b(1,0) = z.imag(); b(1,1) = z.real(); return b; }
int main() {
    int nx = 5, ny = 5, n = nx * ny; double shift = 0.25;
    static const cplx ph[4] = {cplx(1, 0), cplx(0.6, 0.8), cplx(0, 1), cplx(0.8, -0.6)};
    std::vector<ptrdiff_t> ptr{0}, col; std::vector<cplx> val;
    for (int j = 0; j < ny; ++j) for (int i = 0; i < nx; ++i) {
        int c = j * nx + i;
        auto add = [&](int d) { cplx v = -1.0; if (d > c) v *= ph[(c + d) % 4]; else v *= std::conj(ph[(c + d) % 4]); col.push_back(d); val.push_back(v); };
        if (j) add(c - nx); if (i) add(c - 1);
        col.push_back(c); val.push_back(4.0 + shift);
        if (i + 1 < nx) add(c + 1); if (j + 1 < ny) add(c + nx);
        ptr.push_back(col.size());
    }
    std::vector<Blk> bval; for (auto z : val) bval.push_back(blk(z));
    backend::crs<cplx> Ac(std::make_tuple((size_t)n, ptr, col, val));
    backend::crs<Blk>  Ab(std::make_tuple((size_t)n, ptr, col, bval));
    for (int level = 0; level < 3; ++level) {
        coarsening::smoothed_aggr_emin<backend::builtin<cplx>> cc; coarsening::smoothed_aggr_emin<backend::builtin<Blk>> cb;
        std::shared_ptr<backend::crs<cplx>> Pc, Rc; std::shared_ptr<backend::crs<Blk>> Pb, Rb;
        try { std::tie(Pc, Rc) = cc.transfer_operators(Ac); } catch (const std::exception &e) { std::cout << "complex: " << e.what() << "\n"; break; }
        try { std::tie(Pb, Rb) = cb.transfer_operators(Ab); } catch (const std::exception &e) { std::cout << "block: " << e.what() << "\n"; break; }
        std::cout << "level " << level << ": complex P " << Pc->nrows << "x" << Pc->ncols << " nnz " << Pc->nnz << " ; block P " << Pb->nrows << "x" << Pb->ncols << " nnz " << Pb->nnz << "\n";
        if (Pc->ncols != Pb->ncols || Pc->nnz != Pb->nnz) { std::cout << "  different aggregation / pattern\n"; }
        double worstP = 0, worstR = 0, noniso = 0; int wi = -1, wq = -1;
        if (Pc->nnz == Pb->nnz) for (size_t i = 0; i < Pc->nrows; ++i) for (auto q = Pc->ptr[i]; q < Pc->ptr[i + 1]; ++q) {
            Blk e = blk(Pc->val[q]); double d = 0; for (int k = 0; k < 4; ++k) d = std::max(d, std::abs(e(k / 2, k % 2) - Pb->val[q](k / 2, k % 2)));
            if (Pc->col[q] != Pb->col[q]) d = 1e9;
            if (d > worstP) { worstP = d; wi = i; wq = Pc->col[q]; }
            Blk b = Pb->val[q]; noniso = std::max(noniso, std::max(std::abs(b(0,0) - b(1,1)), std::abs(b(0,1) + b(1,0))));
        }
        if (Rc->nnz == Rb->nnz) for (size_t q = 0; q < Rc->nnz; ++q) { Blk e = blk(Rc->val[q]); for (int k = 0; k < 4; ++k) worstR = std::max(worstR, std::abs(e(k / 2, k % 2) - Rb->val[q](k / 2, k % 2))); }
        std::cout << "  max |P_block - iso(P_complex)| = " << worstP << " at (" << wi << "," << wq << ")   max |R_block - iso(R_complex)| = " << worstR << "   block P entries not of the form [a -b; b a] by " << noniso << "\n";
        if (worstP > 1e-12 && wi >= 0) for (auto q = Pc->ptr[wi]; q < Pc->ptr[wi + 1]; ++q) if (Pc->col[q] == wq) std::cout << "  complex " << Pc->val[q] << "  block [" << Pb->val[q](0,0) << " " << Pb->val[q](0,1) << "; " << Pb->val[q](1,0) << " " << Pb->val[q](1,1) << "]\n";
        auto Acc = cc.coarse_operator(Ac, *Pc, *Rc); auto Abc = cb.coarse_operator(Ab, *Pb, *Rb);
        Ac = *Acc; Ab = *Abc;
        if (Ac.nrows <= 2) break;
    }
}
