// every thread of the user's own parallel region builds and applies its own solver (nesting disabled: inner teams of one)
#include <iostream>
#include <boost/property_tree/ptree.hpp>
#include <omp.h>
#include <amgcl/backend/builtin.hpp>
#include <amgcl/adapter/crs_tuple.hpp>
#include <amgcl/make_solver.hpp>
#include <amgcl/amg.hpp>
#include <amgcl/coarsening/smoothed_aggregation.hpp>
#include <amgcl/relaxation/gauss_seidel.hpp>
#include <amgcl/relaxation/ilu0.hpp>
#include <amgcl/relaxation/spai0.hpp>
#include <amgcl/solver/bicgstab.hpp>
using namespace amgcl;
typedef backend::builtin<double> B;
template <template <class> class R> static void run(const char *name, int nx, const char *serial_key) {
    int n = nx * nx; std::vector<ptrdiff_t> ptr{0}, col; std::vector<double> val;
    for (int j = 0; j < nx; ++j) for (int i = 0; i < nx; ++i) { int c = j * nx + i;
        if (j) { col.push_back(c - nx); val.push_back(-1); } if (i) { col.push_back(c - 1); val.push_back(-1); }
        col.push_back(c); val.push_back(4.25);
        if (i + 1 < nx) { col.push_back(c + 1); val.push_back(-1); } if (j + 1 < nx) { col.push_back(c + nx); val.push_back(-1); }
        ptr.push_back(col.size()); }
    std::vector<double> f(n); for (int i = 0; i < n; ++i) f[i] = 1 + i % 7;
    typedef make_solver<amg<B, coarsening::smoothed_aggregation, R>, solver::bicgstab<B>> S;
    auto solve = [&](std::vector<double> &x, size_t &it, double &res, std::vector<double> &pz) {
        boost::property_tree::ptree p; p.put("precond.coarse_enough", 50); if (serial_key) p.put(serial_key, false);
        S s(std::make_tuple((size_t)n, ptr, col, val), p);
        pz.assign(n, 0.0); s.precond().apply(f, pz);
        x.assign(n, 0.0); std::tie(it, res) = s(f, x); };
    std::vector<double> xr, pr; size_t itr; double rr; solve(xr, itr, rr, pr);      // top level, full team
    std::vector<double> xs[2], ps[2]; size_t its[2]; double rs[2];
#pragma omp parallel num_threads(2)
    { int t = omp_get_thread_num(); solve(xs[t], its[t], rs[t], ps[t]); }
    for (int t = 0; t < 2; ++t) {
        double dp = 0, sp = 0, tr = 0, fn = 0; for (int i = 0; i < n; ++i) { dp = std::max(dp, std::abs(ps[t][i] - pr[i])); sp = std::max(sp, std::abs(pr[i])); }
        for (int i = 0; i < n; ++i) { double a = f[i]; for (auto j = ptr[i]; j < ptr[i + 1]; ++j) a -= val[j] * xs[t][col[j]]; tr += a * a; fn += f[i] * f[i]; }
        std::cout << name << " n=" << n << " max_threads=" << omp_get_max_threads() << " | top level: " << itr << " its, res " << rr << " | inside region, thread " << t << ": " << its[t] << " its, reported " << rs[t] << ", true " << std::sqrt(tr / fn) << ", max |B f - B_top f| = " << dp << " (scale " << sp << ")\n";
    }
}
int main() { omp_set_max_active_levels(1); run<relaxation::spai0>("spai0       ", 40, nullptr); run<relaxation::gauss_seidel>("gauss_seidel", 40, "precond.relax.serial"); run<relaxation::ilu0>("ilu0        ", 40, "precond.relax.solve.serial"); }
