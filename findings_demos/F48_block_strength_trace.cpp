#include <complex>
#include <iostream>
#include <amgcl/backend/builtin.hpp>
#include <amgcl/value_type/complex.hpp>
#include <amgcl/value_type/static_matrix.hpp>
#include <amgcl/adapter/crs_tuple.hpp>
#include <amgcl/make_solver.hpp>
#include <amgcl/amg.hpp>
#include <amgcl/coarsening/smoothed_aggr_emin.hpp>
#include <amgcl/coarsening/plain_aggregates.hpp>
#include <amgcl/relaxation/spai0.hpp>
#include <amgcl/solver/cg.hpp>
using namespace amgcl;
typedef std::complex<double> cplx; typedef static_matrix<double,2,2> Blk; typedef static_matrix<double,2,1> Rhs;
static Blk blk(cplx z) { Blk b; b(0,0) = z.real(); b(0,1) = -z.imag(); b(1,0) = z.imag(); b(1,1) = z.real(); return b; }
int main() {
    int nx = 5, ny = 5, n = nx * ny; double shift = 0.25;
    static const cplx ph[4] = {cplx(1, 0), cplx(0.6, 0.8), cplx(0, 1), cplx(0.8, -0.6)};
    std::vector<ptrdiff_t> ptr{0}, col; std::vector<cplx> val;
    for (int j = 0; j < ny; ++j) for (int i = 0; i < nx; ++i) {
        int c = j * nx + i;
        auto add = [&](int d) { cplx v = -1.0; if (d > c) v *= ph[(c + d) % 4]; else v *= std::conj(ph[(c + d) % 4]); col.push_back(d); val.push_back(v); };
        if (j) add(c - nx); if (i) add(c - 1);
        col.push_back(c); val.push_back(4.0 + shift);
        if (i + 1 < nx) add(c + 1); if (j + 1 < ny) add(c + nx);
        ptr.push_back(col.size());
    }
    std::vector<Blk> bval; for (auto z : val) bval.push_back(blk(z));
    { backend::crs<cplx> Ac(std::make_tuple((size_t)n, ptr, col, val)); backend::crs<Blk> Ab(std::make_tuple((size_t)n, ptr, col, bval));
      coarsening::plain_aggregates::params ap; coarsening::plain_aggregates gc(Ac, ap), gb(Ab, ap);
      int sc = 0, sb = 0; for (char c : gc.strong_connection) sc += c; for (char c : gb.strong_connection) sb += c;
      std::cout << "strong connections: complex " << sc << " of " << col.size() - n << " off-diagonals, 2x2 block form " << sb << "; aggregates " << gc.count << " vs " << gb.count << "\n"; }
    std::vector<cplx> fc(n); for (int i = 0; i < n; ++i) fc[i] = cplx(1 + i % 3, 0.5 * (i % 2));
    { typedef backend::builtin<cplx> B; make_solver<amg<B, coarsening::smoothed_aggr_emin, relaxation::spai0>, solver::cg<B>>::params p; p.precond.coarse_enough = 2;
      make_solver<amg<B, coarsening::smoothed_aggr_emin, relaxation::spai0>, solver::cg<B>> S(std::make_tuple((size_t)n, ptr, col, val), p);
      std::vector<cplx> x(n, 0); size_t it; double r; std::tie(it, r) = S(fc, x); std::cout << "complex : " << it << " its, residual " << r << "\n"; }
    { typedef backend::builtin<Blk> B; make_solver<amg<B, coarsening::smoothed_aggr_emin, relaxation::spai0>, solver::cg<B>>::params p; p.precond.coarse_enough = 2;
      make_solver<amg<B, coarsening::smoothed_aggr_emin, relaxation::spai0>, solver::cg<B>> S(std::make_tuple((size_t)n, ptr, col, bval), p);
      std::vector<Rhs> f(n), x(n); for (int i = 0; i < n; ++i) { f[i](0) = fc[i].real(); f[i](1) = fc[i].imag(); x[i] = math::zero<Rhs>(); }
      size_t it; double r; std::tie(it, r) = S(f, x); std::cout << "2x2 blk : " << it << " its, residual " << r << "\n"; }
}
