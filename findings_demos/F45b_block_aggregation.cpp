#include <amgcl/backend/builtin.hpp>
#include <amgcl/value_type/static_matrix.hpp>
#include <amgcl/adapter/crs_tuple.hpp>
#include <amgcl/amg.hpp>
#include <amgcl/coarsening/runtime.hpp>
#include <amgcl/relaxation/runtime.hpp>
#include <boost/property_tree/ptree.hpp>
#include <Eigen/Dense>
#include <iostream>
using namespace amgcl;
typedef static_matrix<double,2,2> Val; typedef static_matrix<double,2,1> Rhs;
typedef backend::builtin<Val> B;
typedef amg<B, runtime::coarsening::wrapper, runtime::relaxation::wrapper> AMG;
static double rho(int n, uint64_t code, double oi, int ncycle, int npre, int npost, const char *relax, int lv_smooth, double *lmin) {
    Eigen::MatrixXd g = Eigen::MatrixXd::Zero(n, n); uint64_t c = code;
    for (int i = 0; i < n; ++i) for (int j = i + 1; j < n; ++j) { int w = c % 3; c /= 3; if (w) g(i, j) = g(j, i) = (w == 1 ? -1.0 : -100.0); }
    for (int i = 0; i < n; ++i) { double s = (i == 0 ? 1 : 0); for (int j = 0; j < n; ++j) if (j != i) s -= g(i, j); g(i, i) = s; }
    int N = 2 * n; Eigen::MatrixXd d = Eigen::MatrixXd::Zero(N, N);
    std::vector<ptrdiff_t> ptr{0}, col; std::vector<Val> val;
    for (int I = 0; I < n; ++I) { for (int J = 0; J < n; ++J) if (g(I, J) != 0) {
        Val b; b(0,0) = b(1,1) = g(I, J); b(0,1) = b(1,0) = 0;
        if (I == J) { b(0,0) += 1; b(1,1) += 1; b(0,1) = b(1,0) = -1; }
        col.push_back(J); val.push_back(b);
        for (int i = 0; i < 2; ++i) for (int j = 0; j < 2; ++j) d(2*I+i, 2*J+j) = b(i,j);
      } ptr.push_back(col.size()); }
    boost::property_tree::ptree p;
    p.put("coarsening.type", "aggregation"); p.put("relax.type", relax);
    if (oi > 0) p.put("coarsening.over_interp", oi);
    if (lv_smooth) { p.put("coarse_enough", 2); p.put("direct_coarse", false); } else { p.put("coarse_enough", 1); p.put("direct_coarse", true); }
    p.put("ncycle", ncycle); p.put("npre", npre); p.put("npost", npost); p.put("pre_cycles", 1);
    AMG a(std::make_tuple((size_t)n, ptr, col, val), p);
    Eigen::MatrixXd Bm(N, N);
    backend::numa_vector<Rhs> f(n), x(n);
    for (int j = 0; j < N; ++j) { for (int i = 0; i < n; ++i) { f[i](0) = (2*i == j); f[i](1) = (2*i+1 == j); } a.apply(f, x); for (int i = 0; i < n; ++i) { Bm(2*i, j) = x[i](0); Bm(2*i+1, j) = x[i](1); } }
    Eigen::MatrixXd E = Eigen::MatrixXd::Identity(N, N) - Bm * d;
    *lmin = Eigen::SelfAdjointEigenSolver<Eigen::MatrixXd>(d).eigenvalues()(0);
    return Eigen::EigenSolver<Eigen::MatrixXd>(E).eigenvalues().cwiseAbs().maxCoeff();
}
int main() {
    struct K { int n; uint64_t code; } keys[] = {{4, 80}, {4, 188}, {3, 26}, {4, 236}};
    for (auto k : keys) { double lm;
        std::cout << "block2 wl" << k.n << "c" << k.code << " aggregation+chebyshev ce2_smooth nc2 pre1 post2:";
        for (double oi : {-1.0, 2.0, 1.5, 1.25, 1.0}) std::cout << "  oi=" << (oi < 0 ? std::string("default") : std::to_string(oi).substr(0, 4)) << " rho=" << rho(k.n, k.code, oi, 2, 1, 2, "chebyshev", 1, &lm);
        std::cout << "  [lambda_min(A)=" << lm << "]\n    same, damped_jacobi: default rho=" << rho(k.n, k.code, -1, 2, 1, 2, "damped_jacobi", 1, &lm) << "   spai0: " << rho(k.n, k.code, -1, 2, 1, 2, "spai0", 1, &lm)
                  << "   cheb nc1: " << rho(k.n, k.code, -1, 1, 1, 2, "chebyshev", 1, &lm) << "   cheb nc2 direct coarse: " << rho(k.n, k.code, -1, 2, 1, 2, "chebyshev", 0, &lm) << "\n";
    }
}
