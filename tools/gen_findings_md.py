#!/usr/bin/env python3
"""Rewrites DESIGN.md section 9.3 (between the FINDINGS markers) from known_findings.json."""
import json, re, os
ROOT = os.path.dirname(os.path.dirname(os.path.abspath(__file__)))
F = json.load(open(os.path.join(ROOT, "known_findings.json")))["findings"]
def esc(s): return s.replace("|", "\\|").replace("\n", " ")
fixed = [f for f in F if f["status"] == "fixed"]
known = [f for f in F if f["status"] == "known"]
out = []
out.append("### 9.3 Genuine defects found on the unchanged tree\n")
out.append("Generated from `known_findings.json` by `tools/gen_findings_md.py`.  **%d repaired** (one `fix:` commit each in /repo; the pinned suite was re-run at every one of them, see `tools/verify_fix_commits.sh`; entries are `fixed`, i.e. they suppress nothing), **%d recorded** as known findings (printed as `KNOWN-FINDING:` on every run; matched as narrowly as the failure allows: dedicated sub-check and key / key list).\n" % (len(fixed), len(known)))
out.append("Repaired:\n")
out.append("| id | property | commit(s) | what failed (first failing input) | where |")
out.append("|----|----------|-----------|-----------------------------------|-------|")
for f in fixed:
    w = re.sub(r"^fixed: property=\S+ \S+ ", "", f["what"])
    out.append("| %s | %s | %s | %s | %s |" % (f["id"], f["property"], f.get("commit", ""), esc(w), esc(f.get("where", ""))))
out.append("\nRecorded, not repaired:\n")
out.append("| id | property | matched on | what fails and why it is not repaired | where |")
out.append("|----|----------|------------|----------------------------------------|-------|")
for f in known:
    m = []
    if f.get("subcheck"): m.append("sub-check `%s`" % f["subcheck"])
    if f.get("subcheck_regex"): m.append("sub-check ~ `%s`" % f["subcheck_regex"])
    for k, v in f.get("match", {}).items(): m.append("%s `%s`" % (k, v))
    out.append("| %s | %s | %s | %s | %s |" % (f["id"], f["property"], esc("; ".join(m)), esc(f["what"]), esc(f.get("where", ""))))
text = "\n".join(out) + "\n"
p = os.path.join(ROOT, "DESIGN.md")
s = open(p).read()
a, b = "<!-- FINDINGS-BEGIN -->", "<!-- FINDINGS-END -->"
if a not in s:
    i = s.index("### 9.3 Genuine defects found on the unchanged tree")
    s = s[:i] + a + "\n" + b + "\n"
s = s[:s.index(a) + len(a)] + "\n" + text + s[s.index(b):]
open(p, "w").write(s)
print("fixed", len(fixed), "known", len(known))
