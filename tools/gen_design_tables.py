#!/usr/bin/env python3
"""Rewrites DESIGN.md sections 9.4 (per-property coverage from specs + evidence) and 9.5 (seeded changes) between markers."""
import json, os, glob
ROOT = os.path.dirname(os.path.dirname(os.path.abspath(__file__)))
def esc(s): return str(s).replace("|", "\\|").replace("\n", " ")
out = ["### 9.4 What each accepted check covers (numbers from the committed evidence files)\n",
       "| property | level | units | quick: evaluations / distinct non-trivial / states / transitions / traces validated | exhaustive | known findings matched |",
       "|---|---|---|---|---|---|"]
for p in sorted(glob.glob(os.path.join(ROOT, "checks", "C??.json"))):
    s = json.load(open(p)); pid = s["property"]
    evp = os.path.join(ROOT, "evidence", pid + ".json")
    if not os.path.exists(evp): continue
    e = json.load(open(evp)); c = e["coverage"]
    out.append("| %s | %s | %s | %s / %s / %s / %s / %s (%s tier) | %s | %s |" % (pid, s["level"], ", ".join(u["name"] for u in s["units"]),
        c.get("evaluations"), c.get("distinct_nontrivial"), c.get("states", "-"), c.get("transitions", "-"), c.get("traces_validated_against_impl", "-"), e["tier"],
        c.get("exhaustive"), ", ".join(c.get("known_findings_matched", {}).keys()) or "-"))
out.append("\nThe enumeration rule, the oracle and the assumptions of every check are in `checks/Cnn.json` (`rule`, `assumptions`, `level_text`, `level_note`) and are copied into MANIFEST.json / the evidence files.\n")
out.append("### 9.5 Seeded changes (independent sub-agents, property text only) and which check catches them\n")
out.append("Every change below compiles, passes the 12 pinned test executables, and has a demonstration that fails with it and passes without it; all of that was re-confirmed in a scratch worktree by `tools/confirm_seed.sh` (log: `seeded/CONFIRMED.log`).  `tools/try_seed.sh` applies a change to a scratch worktree and runs the checks against it.\n")
out.append("| seed | files changed | what it needs to manifest | caught by | check had to be strengthened? |")
out.append("|---|---|---|---|---|")
R = json.load(open(os.path.join(ROOT, "seeded", "RESULTS.json")))
for d in sorted(glob.glob(os.path.join(ROOT, "seeded", "C??-*"))):
    sid = os.path.basename(d)
    try: m = json.load(open(os.path.join(d, "meta.json")))
    except Exception: m = {}
    r = R.get(sid, {})
    out.append("| %s | %s | %s | %s | %s |" % (sid, esc(", ".join(m.get("files_changed", []))), esc(m.get("needs_to_manifest", ""))[:400], esc(r.get("caught_by", "not yet run")), esc(("yes: " + r.get("note", "")) if r.get("strengthened") else ("no" + ((" (" + r["note"] + ")") if r.get("note") else "")))))
text = "\n".join(out) + "\n"
p = os.path.join(ROOT, "DESIGN.md"); s = open(p).read()
a, b = "<!-- TABLES-BEGIN -->", "<!-- TABLES-END -->"
if a not in s: s = s.rstrip("\n") + "\n\n" + a + "\n" + b + "\n"
s = s[:s.index(a) + len(a)] + "\n" + text + s[s.index(b):]
open(p, "w").write(s)
print("ok")
