#!/bin/bash
# Builds the pinned test suite at every "fix:" commit of /repo (one at a time, in a scratch worktree)
# and runs the 12 test executables; writes one line per commit to the log given as $1.
LOG=${1:-/tmp/fix_commits.log}
WT=/tmp/wt_fixverify
touch "$LOG"
for c in $(git -C /repo log --reverse --format=%h --grep='^fix:' ); do
  grep -q "^$c rc=0" "$LOG" && continue
  rm -rf $WT; git -C /repo worktree prune; git -C /repo worktree add -f $WT $c -q || { echo "$c worktree-failed" >> "$LOG"; continue; }
  ( cd $WT && cmake -G Ninja -B _build -S . -DAMGCL_BUILD_TESTS=ON -DCMAKE_BUILD_TYPE=RelWithDebInfo > /dev/null 2>&1 && nice cmake --build _build -j6 > _build/build.log 2>&1 \
    && GOMP_SPINCOUNT=0 OMP_NUM_THREADS=4 ctest --test-dir _build -j3 --timeout 1500 > _build/ctest.log 2>&1 )
  rc=$?
  res=$(grep -E "tests passed|tests failed" $WT/_build/ctest.log 2>/dev/null | tail -1)
  echo "$c rc=$rc $(git -C /repo log -1 --format=%s $c | cut -c1-70) :: $res" >> "$LOG"
  git -C /repo worktree remove --force $WT
done
echo DONE >> "$LOG"
