#!/bin/bash
# confirm_seed.sh <seed dir containing patch.diff, demo.cpp|demo.sh, meta.json> <logfile>
# Independently confirms a seeded change in a scratch worktree of /repo HEAD:
#   (1) demo passes on the clean tree, (2) patch applies, (3) demo fails on the patched tree,
#   (4) the pinned test suite builds and passes with the patch.  Appends one summary line to <logfile>.
D=$(readlink -f "$1"); LOG=${2:-/tmp/confirm_seeds.log}
WT=/tmp/cs_$$
git -C /repo worktree add -f $WT HEAD -q || exit 2
cmd=$(python3 -c "import json,sys; print(json.load(open('$D/meta.json')).get('demo_cmd',''))" 2>/dev/null)
build_demo() {  # $1 = output exe
  if grep -q "amgcl/mpi\|mpi.h" $D/demo.cpp 2>/dev/null; then mpicxx -std=c++17 -O1 -fopenmp -I $WT -I/usr/include/eigen3 $D/demo.cpp -o $1 2>/tmp/cs_$$_build.err
  elif grep -q '"amgcl.h"' $D/demo.cpp 2>/dev/null; then g++ -std=c++17 -O1 -fopenmp -I $WT -I $WT/lib -I/usr/include/eigen3 $D/demo.cpp $WT/lib/amgcl.cpp -o $1 2>/tmp/cs_$$_build.err
  else g++ -std=c++17 -O1 -fopenmp -I $WT -I/usr/include/eigen3 $D/demo.cpp -o $1 2>/tmp/cs_$$_build.err; fi
}
run_demo() {    # $1 = exe ; uses np from meta demo_cmd if it is an MPI demo
  if grep -q "amgcl/mpi\|mpi.h" $D/demo.cpp 2>/dev/null; then
     np=$(echo "$cmd" | grep -o "\-np [0-9]*" | head -1 | awk '{print $2}'); np=${np:-3}
     OMP_NUM_THREADS=1 timeout 600 mpirun --allow-run-as-root --oversubscribe -np $np $1 > /tmp/cs_$$_demo.out 2>&1
  else
     OMP_NUM_THREADS=${DEMO_THREADS:-4} timeout 900 $1 > /tmp/cs_$$_demo.out 2>&1
  fi
}
build_demo /tmp/cs_$$_demo_clean || { echo "$D demo-build-failed-clean $(head -c 300 /tmp/cs_$$_build.err)" >> $LOG; git -C /repo worktree remove --force $WT; exit 1; }
run_demo /tmp/cs_$$_demo_clean; rc_clean=$?
git -C $WT apply $D/patch.diff || { echo "$D patch-does-not-apply" >> $LOG; git -C /repo worktree remove --force $WT; exit 1; }
build_demo /tmp/cs_$$_demo_patched || { echo "$D demo-build-failed-patched" >> $LOG; git -C /repo worktree remove --force $WT; exit 1; }
run_demo /tmp/cs_$$_demo_patched; rc_patched=$?
# REUSE_BUILD=<patched worktree with an existing _build>: the suite is (re)built incrementally and run there by this script
# instead of from scratch (the tree must differ from HEAD by exactly patch.diff, which is asserted first).
if [ -n "$REUSE_BUILD" ]; then
  if ! diff <(git -C $REUSE_BUILD diff) <(git -C $WT diff) > /dev/null; then echo "$D reuse-tree-differs-from-patch" >> $LOG; git -C /repo worktree remove --force $WT; exit 1; fi
  ( cd $REUSE_BUILD && nice cmake --build _build -j6 > _build/build2.log 2>&1 && GOMP_SPINCOUNT=0 OMP_NUM_THREADS=4 ctest --test-dir _build -j3 --timeout 1500 > _build/ctest.log 2>&1 ); rc_suite=$?
  res="$(grep -E "tests passed|tests failed" $REUSE_BUILD/_build/ctest.log 2>/dev/null | tail -1) [suite rebuilt incrementally and run by confirm_seed.sh in the author's patched worktree, tree == HEAD + patch.diff asserted]"
else
( cd $WT && cmake -G Ninja -B _build -S . -DAMGCL_BUILD_TESTS=ON -DCMAKE_BUILD_TYPE=RelWithDebInfo > /dev/null 2>&1 && nice cmake --build _build -j6 > _build/build.log 2>&1 \
  && GOMP_SPINCOUNT=0 OMP_NUM_THREADS=4 ctest --test-dir _build -j3 --timeout 1500 > _build/ctest.log 2>&1 ); rc_suite=$?
res=$(grep -E "tests passed|tests failed" $WT/_build/ctest.log 2>/dev/null | tail -1)
fi
echo "$D demo_clean_rc=$rc_clean demo_patched_rc=$rc_patched suite_rc=$rc_suite :: $res" >> $LOG
git -C /repo worktree remove --force $WT
rm -f /tmp/cs_$$_demo_clean /tmp/cs_$$_demo_patched /tmp/cs_$$_build.err /tmp/cs_$$_demo.out
