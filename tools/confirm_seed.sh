#!/bin/bash
# confirm_seed.sh <seed dir containing patch.diff, demo.cpp|demo.sh, meta.json> <logfile>
# Independently confirms a seeded change in a scratch worktree of /repo HEAD:
#   (1) demo passes on the clean tree, (2) patch applies, (3) demo fails on the patched tree,
#   (4) the pinned test suite builds and passes with the patch.  Appends one summary line to <logfile>.
D=$(readlink -f "$1"); LOG=${2:-/tmp/confirm_seeds.log}
WT=/tmp/cs_$$
git -C /repo worktree add -f $WT HEAD -q || exit 2
cmd=$(python3 -c "import json,sys; print(json.load(open('$D/meta.json')).get('demo_cmd',''))" 2>/dev/null)
build_demo() {  # $1 = output exe
  if grep -q "amgcl/mpi\|mpi.h" $D/demo.cpp 2>/dev/null; then mpicxx -std=c++17 -O1 -fopenmp -I $WT -I/usr/include/eigen3 $D/demo.cpp -o $1 2>/tmp/cs_build.err
  elif grep -q '"amgcl.h"' $D/demo.cpp 2>/dev/null; then g++ -std=c++17 -O1 -fopenmp -I $WT -I $WT/lib -I/usr/include/eigen3 $D/demo.cpp $WT/lib/amgcl.cpp -o $1 2>/tmp/cs_build.err
  else g++ -std=c++17 -O1 -fopenmp -I $WT -I/usr/include/eigen3 $D/demo.cpp -o $1 2>/tmp/cs_build.err; fi
}
run_demo() {    # $1 = exe ; uses np from meta demo_cmd if it is an MPI demo
  if grep -q "amgcl/mpi\|mpi.h" $D/demo.cpp 2>/dev/null; then
     np=$(echo "$cmd" | grep -o "\-np [0-9]*" | head -1 | awk '{print $2}'); np=${np:-3}
     OMP_NUM_THREADS=1 timeout 600 mpirun --allow-run-as-root --oversubscribe -np $np $1 > /tmp/cs_demo.out 2>&1
  else
     OMP_NUM_THREADS=${DEMO_THREADS:-4} timeout 900 $1 > /tmp/cs_demo.out 2>&1
  fi
}
build_demo /tmp/cs_demo_clean || { echo "$D demo-build-failed-clean $(head -c 300 /tmp/cs_build.err)" >> $LOG; git -C /repo worktree remove --force $WT; exit 1; }
run_demo /tmp/cs_demo_clean; rc_clean=$?
git -C $WT apply $D/patch.diff || { echo "$D patch-does-not-apply" >> $LOG; git -C /repo worktree remove --force $WT; exit 1; }
build_demo /tmp/cs_demo_patched || { echo "$D demo-build-failed-patched" >> $LOG; git -C /repo worktree remove --force $WT; exit 1; }
run_demo /tmp/cs_demo_patched; rc_patched=$?
( cd $WT && cmake -G Ninja -B _build -S . -DAMGCL_BUILD_TESTS=ON -DCMAKE_BUILD_TYPE=RelWithDebInfo > /dev/null 2>&1 && nice cmake --build _build -j6 > _build/build.log 2>&1 \
  && GOMP_SPINCOUNT=0 OMP_NUM_THREADS=4 ctest --test-dir _build -j3 --timeout 1500 > _build/ctest.log 2>&1 ); rc_suite=$?
res=$(grep -E "tests passed|tests failed" $WT/_build/ctest.log 2>/dev/null | tail -1)
echo "$D demo_clean_rc=$rc_clean demo_patched_rc=$rc_patched suite_rc=$rc_suite :: $res" >> $LOG
git -C /repo worktree remove --force $WT
rm -f /tmp/cs_demo_clean /tmp/cs_demo_patched
