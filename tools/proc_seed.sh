#!/bin/bash
# proc_seed.sh <author worktree with seeded/{patch.diff,demo.cpp,meta.json}> <property id> <k>
# Stores the seed as /verif/seeded/<id>-<k>, confirms it (demo clean/patched, suite) and runs the property's quick check
# against it; the two result lines go to seeded/CONFIRMED.log and /tmp/s_results.log.
SRC=$1; C=$2; K=$3; D=/verif/seeded/$C-$K
mkdir -p $D && cp $SRC/seeded/patch.diff $SRC/seeded/demo.cpp $SRC/seeded/meta.json $D/ || exit 2
REUSE_BUILD=${REUSE_BUILD:-} bash /verif/tools/confirm_seed.sh $D /verif/seeded/CONFIRMED.log &
bash /verif/tools/try_seed.sh $D/patch.diff $C >> /tmp/s_results.log 2>&1 &
wait
