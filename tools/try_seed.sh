#!/bin/bash
# try_seed.sh <patch.diff> <check id> [<check id> ...]
# Applies a seeded change to a scratch worktree of /repo (HEAD), runs the given checks (quick tier, no evidence)
# against it via VERIF_REPO, prints one verdict line per check, removes the worktree.
# (Equivalent to `git -C /repo apply` + run + `git -C /repo checkout -- .`, but does not disturb other runs
#  that are using /repo at the same time; VERIF_BUILD keeps its objects apart from /verif/build, so the same check
#  may run concurrently for several seeds.)
P=$(readlink -f "$1"); shift
WT=/tmp/st_$$
git -C /repo worktree add -f $WT HEAD -q || exit 2
if ! git -C $WT apply "$P"; then echo "PATCH DOES NOT APPLY: $P"; git -C /repo worktree remove --force $WT; exit 2; fi
for c in "$@"; do
  out=$(VERIF_BUILD=$WT/_vbuild VERIF_REPO=$WT VERIF_NPROC=${VERIF_NPROC:-8} timeout 3000 python3 /verif/run_check.py $c --tier ${TIER:-quick} --no-evidence 2>&1)
  rc=$?
  nv=$(echo "$out" | grep -c '^VIOLATION')
  first=$(echo "$out" | grep -m1 '^  sub=' | cut -c1-300)
  echo "SEED $(basename $(dirname $P))/$(basename $P) check=$c exit=$rc violations_lines=$nv :: $first"
done
git -C /repo worktree remove --force $WT
